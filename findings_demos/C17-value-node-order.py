import jax, jax.numpy as jnp
import liesel.model as lsl
import tensorflow_probability.substrates.jax.distributions as tfd
bad = 0
for seed in range(4):
    for auto in (True, False):
        rate = lsl.Var(0.87, name="rate")
        p = lsl.Var(0.7, lsl.Dist(tfd.Gamma, concentration=2.8, rate=rate), name="p")
        g0 = lsl.Calc(lambda x: 0.3 * x, p, _name="g0")
        a = lsl.Var(1.5, lsl.Dist(tfd.Normal, loc=g0, scale=1e-3), name="a")
        g = lsl.Calc(lambda x: 10.0 * x, a.value_node, _name="g")     # input: the variable's value node
        b = lsl.Var(0.0, lsl.Dist(tfd.Normal, loc=g, scale=1e-3), name="b")
        m = lsl.GraphBuilder().add(rate, p, g0, a, g, b).build_model()
        m.auto_update = auto
        m.simulate(jax.random.PRNGKey(seed))
        m.update()
        av, bv = float(m.vars["a"].value), float(m.vars["b"].value)
        ok = abs(bv - 10 * av) < 0.05
        bad += not ok
        print(f"seed={seed} auto_update={auto}: a={av:.4f} b={bv:.4f} 10a={10*av:.4f} {'ok' if ok else 'STALE (b drawn at the old a=1.5)'}")
raise SystemExit(1 if bad else 0)

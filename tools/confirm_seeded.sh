#!/bin/bash
# tools/confirm_seeded.sh <Cxx> [<suffix>]  — confirms a sub-agent's seeded change in its scratch worktree /tmp/wt_<Cxx><suffix>:
# demo fails with the change, passes without it, pinned suite still green; then stores it under /verif/seeded/<Cxx><suffix>/.
set -u
P=$1; SFX=${2:-}; WT=/tmp/wt_${P}${SFX}; OUT=/verif/seeded/${P}${SFX}
cd $WT || exit 2
git diff -- liesel > /tmp/confirm_${P}${SFX}.diff
[ -s /tmp/confirm_${P}${SFX}.diff ] || { echo "no diff in $WT"; exit 2; }
PYTHONPATH=$WT timeout 900 /venv/bin/python -W ignore seeded_demo.py > /tmp/confirm_${P}${SFX}.with.log 2>&1; WITH=$?
git checkout -- liesel
PYTHONPATH=$WT timeout 900 /venv/bin/python -W ignore seeded_demo.py > /tmp/confirm_${P}${SFX}.without.log 2>&1; WITHOUT=$?
git apply /tmp/confirm_${P}${SFX}.diff
PYTHONPATH=$WT timeout 2400 /venv/bin/python -m pytest -q -p no:cacheprovider --timeout=900 > /tmp/confirm_${P}${SFX}.pytest.log 2>&1; PT=$?
SUMMARY=$(tail -1 /tmp/confirm_${P}${SFX}.pytest.log)
echo "$P$SFX demo_with_change_exit=$WITH demo_without_exit=$WITHOUT pytest_exit=$PT :: $SUMMARY"
if [ $WITH -eq 1 ] && [ $WITHOUT -eq 0 ] && [ $PT -eq 0 ]; then
  mkdir -p $OUT
  cp /tmp/confirm_${P}${SFX}.diff $OUT/patch.diff
  cp seeded_demo.py $OUT/demo.py
  cp seeded_meta.txt $OUT/agent_notes.txt 2>/dev/null
  /venv/bin/python - <<PY
import json
json.dump({"property": "$P", "needs": "", "confirmed": {"demo_exit_with_change": $WITH, "demo_exit_without_change": $WITHOUT,
  "pinned_suite_with_change": "$SUMMARY", "ran": "tools/confirm_seeded.sh $P $SFX in the scratch worktree $WT"}, "note": ""}, open("$OUT/meta.json", "w"), indent=1)
PY
  echo "stored in $OUT"
else
  echo "NOT CONFIRMED"
fi

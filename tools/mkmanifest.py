#!/venv/bin/python
"""Regenerates /verif/MANIFEST.json from simkit/meta.py (claimed checks) — keeps it valid."""
import json, os, sys
VERIF = os.path.dirname(os.path.dirname(os.path.abspath(__file__)))
sys.path.insert(0, VERIF)
from simkit.meta import META, MANIFEST_TEXT, NOT_APPLICABLE

WORLDS = {
    "M": ("world-M model graph", "simkit/model_world.py", "seeded op-history simulation of the real liesel.model graph against RefGraph / RefDensity"),
    "I": ("world-I interfaces", "simkit/iface_world.py", "seeded call-history simulation of the Goose model interfaces (eager/jit/vmap) against direct assignment"),
    "E": ("world-E goose engine", "simkit/engine_world.py", "real Goose engine stepped with verif-owned probe kernels / fault-injecting densities against RefEngine"),
    "S": ("world-S statistical", "simkit/stat_world.py", "seeded Monte-Carlo simulation of the real kernels (exact-draw design, Bernstein thresholds)"),
    "O": ("world-O optimiser", "simkit/optim_world.py", "Stopper / optim_flat histories against RefStopper and batch-membership histories"),
}
checks = []
engines = {}
for pid in sorted(META):
    m = META[pid]
    t = MANIFEST_TEXT[pid]
    w = WORLDS[m["world"]]
    engines.setdefault(m["world"], []).append(pid)
    checks.append({
        "property_id": pid,
        "quick_cmd": f"./check {pid} --tier quick",
        "thorough_cmd": f"./check {pid} --tier thorough",
        "evidence_file": f"/verif/evidence/{pid}.json",
        "replay_cmd_template": f"./check {pid} --replay {{path}}",
        "engine": w[0],
        "level_claimed": {"category": m["level"], "text": t["level_text"], "design_ref": t["design_ref"]},
        "level_note": t["level_note"],
        "technique": t["technique"],
    })
man = {
    "version": 1,
    "setup_cmd": "./setup.sh",
    "hooks": {
        "guard": "LIESEL_VERIF",
        "enable": "no hooks were needed: every seam is public API (seeds, kernels, model interfaces, node functions, file objects); checks export LIESEL_VERIF=1 for uniformity only, liesel never reads it",
        "baseline_off_cmd": "cd /repo && /venv/bin/python -m pytest -ra -q -p no:cacheprovider --timeout=900 --continue-on-collection-errors",
        "source_commits": [],
        "add_only": True,
    },
    "engines": [
        {"name": WORLDS[w][0], "path": WORLDS[w][1], "serves_properties": ps, "kind_free_text": WORLDS[w][2]}
        for w, ps in sorted(engines.items())
    ],
    "checks": checks,
    "notes": "Deterministic simulation with fault injection; see DESIGN.md. Genuine defects repaired by 'fix:' commits in /repo are listed as fixed in known_findings.json. ./check selftest-determinism and tools/sensitivity.py are the self-tests.",
    "not_applicable": [{"property_id": k, "reason": v} for k, v in sorted(NOT_APPLICABLE.items()) if k not in META],
}
with open(os.path.join(VERIF, "MANIFEST.json"), "w") as fh:
    json.dump(man, fh, indent=1)
import jsonschema
jsonschema.validate(man, json.load(open("/root/.vp/MANIFEST.schema.json")))
claimed = set(META); na = {x["property_id"] for x in man["not_applicable"]}
allp = {json.loads(l)["id"] for l in open(os.path.join(VERIF, "properties.jsonl"))}
assert claimed | na == allp and not (claimed & na), (allp - claimed - na)
print("MANIFEST ok: claimed", sorted(claimed), "n/a", sorted(na))

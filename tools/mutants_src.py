"""Declarative list of sensitivity mutants: realistic breaking changes that compile and pass the
pinned test suite.  (name, file, old, new, [more (file, old, new) edits...])"""

MUTANTS = [
    # ------------------------------------------------------------------ C07
    ("C07-advance-time-before-transition", "liesel/goose/engine.py",
     """            epoch = carry.epoch
            out = self._kernel_sequence.transition(
                key_trans, carry.kernel_states, carry.model_state, epoch
            )
            epoch.advance_time(1)
""",
     """            epoch = carry.epoch
            epoch.advance_time(1)
            out = self._kernel_sequence.transition(
                key_trans, carry.kernel_states, carry.model_state, epoch
            )
"""),
    ("C07-tune-in-all-warmup-epochs", "liesel/goose/engine.py",
     "        if EpochType.is_adaptation(epoch.config.type):\n            tune_keys",
     "        if EpochType.is_warmup(epoch.config.type):\n            tune_keys"),
    ("C07-no-start-epoch-for-posterior", "liesel/goose/engine.py",
     "        self._kernel_start_epoch()\n",
     "        if self.current_epoch.config.type != EpochType.POSTERIOR:\n            self._kernel_start_epoch()\n"),
    ("C07-history-from-all-epochs", "liesel/goose/engine.py",
     """                history = (
                    self._position_chain.get_current_chain()
                    .get()
                    .expect("The history must contain samples.")
                )""",
     """                history = self._position_chain.combine_all().expect(
                    "The history must contain samples."
                )"""),
    ("C07-end-epoch-after-tune", "liesel/goose/engine.py",
     """        end_keys = self._split_prng_key_one()
        self._kernel_states = jax.vmap(
            self._kernel_sequence.end_epoch, in_axes=(0, 0, 0, None)
        )(end_keys, self._kernel_states, self._model_states, epoch)

        self._tune_kernels(epoch)
""",
     """        self._tune_kernels(epoch)

        end_keys = self._split_prng_key_one()
        self._kernel_states = jax.vmap(
            self._kernel_sequence.end_epoch, in_axes=(0, 0, 0, None)
        )(end_keys, self._kernel_states, self._model_states, epoch)
"""),
    ("C07-adaptive-dispatch-includes-burnin", "liesel/goose/kernel.py",
     "        is_adaptation = EpochType.is_adaptation(epoch.config.type)\n",
     "        is_adaptation = EpochType.is_warmup(epoch.config.type)\n"),
    ("C07-slow-tune-dispatch-swapped", "liesel/goose/kernel.py",
     "        is_slow = epoch.config.type == EpochType.SLOW_ADAPTATION\n",
     "        is_slow = epoch.config.type == EpochType.FAST_ADAPTATION\n"),
    ("C07-warmup-flag-set-at-first-sampled-epoch", "liesel/goose/engine.py",
     "        self._warmup_has_ended = True\n",
     "        self._warmup_has_ended = self._epoch_manager.has_more()\n"),
    # ------------------------------------------------------------------ C08
    ("C08-states-counter-starts-at-zero", "liesel/goose/chain.py",
     "        self._states_counter = 1\n", "        self._states_counter = 0\n"),
    ("C08-thinning-offset-one", "liesel/goose/chain.py",
     "(self._states_counter + np.arange(size)) % th == 0]", "(self._states_counter + np.arange(size)) % th == 1]"),
    ("C08-counter-not-advanced-on-empty-chunk", "liesel/goose/chain.py",
     """            self._states_counter += size

            if len(idx) > 0:
                chunk = slice_leaves(chunk, np.s_[:, idx, ...])
""",
     """            if len(idx) > 0:
                self._states_counter += size
                chunk = slice_leaves(chunk, np.s_[:, idx, ...])
"""),
    ("C08-position-from-state-before-iteration", "liesel/goose/engine.py",
     """            position = self._model.extract_position(
                self._position_keys, out.model_state
            )""",
     """            position = self._model.extract_position(
                self._position_keys, carry.model_state
            )"""),
    ("C08-posterior-samples-include-warmup", "liesel/goose/engine.py",
     """        opt = self.positions.combine_filtered(
            lambda config: config.type == EpochType.POSTERIOR
        )
        return opt.expect(f"No posterior samples in {repr(self)}")""",
     """        opt = self.positions.combine_filtered(
            lambda config: config.type != EpochType.INITIAL_VALUES
        )
        return opt.expect(f"No posterior samples in {repr(self)}")"""),
    ("C08-builder-ignores-positions-excluded", "liesel/goose/builder.py",
     "        pos_keys = [key for key in pos_keys if key not in self.positions_excluded]\n", ""),
    ("C08-quantities-not-thinned", "liesel/goose/engine.py",
     """        self._quantities_chain: EpochChainManager = EpochChainManager(
            apply_thinning=True
        )""",
     """        self._quantities_chain: EpochChainManager = EpochChainManager(
            apply_thinning=False
        )"""),
    ("C08-quantity-from-state-before-iteration", "liesel/goose/engine.py",
     "                    quant = qg.generate(key, out.model_state, epoch)",
     "                    quant = qg.generate(key, carry.model_state, epoch)"),
    # ------------------------------------------------------------------ C10
    ("C10-same-key-for-every-kernel", "liesel/goose/kernel_sequence.py",
     "            result = kernel.transition(keys[i], kernel_states[i], model_state, epoch)",
     "            result = kernel.transition(prng_key, kernel_states[i], model_state, epoch)"),
    ("C10-carry-key-handed-out", "liesel/goose/engine.py",
     "        self._prng_key = keys[:, 0, :]\n", "        self._prng_key = keys[:, 1, :]\n"),
    ("C10-seeds-not-split-per-chain", "liesel/goose/builder.py",
     "            seeds = jax.random.split(seeds, self._num_chains)\n",
     "            seeds = jnp.tile(seeds, (self._num_chains, 1))\n"),
    ("C10-jitter-one-key-for-all-chains", "liesel/goose/builder.py",
     "                    jax.random.split(jitter_keys[i], self._num_chains),\n",
     "                    jnp.tile(jitter_keys[i], (self._num_chains, 1)),\n"),
    ("C10-multi-chain-states-broadcast-chain0", "liesel/goose/builder.py",
     "            model_states = model_state\n",
     "            model_states = jax.tree_util.tree_map(\n                lambda x: jnp.broadcast_to(x[0], x.shape), model_state\n            )\n"),
    ("C10-quantity-key-equals-transition-key", "liesel/goose/engine.py",
     "            key_trans, key_quants = jax.random.split(key)\n",
     "            key_trans, key_quants = key, key\n"),
    ("C10-end-epoch-key-reused", "liesel/goose/engine.py",
     "        end_keys = self._split_prng_key_one()\n", "        end_keys = self._seeds\n"),
    ("C10-int-seed-offset", "liesel/goose/builder.py",
     "            keys = jax.random.split(jax.random.PRNGKey(seed), 3)\n",
     "            keys = jax.random.split(jax.random.PRNGKey(seed), 4)[1:]\n"),
]

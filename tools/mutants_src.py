"""Declarative list of sensitivity mutants: realistic breaking changes that compile and pass the
pinned test suite.  (name, file, old, new, [more (file, old, new) edits...])"""

MUTANTS = [
    # ------------------------------------------------------------------ C07
    ("C07-advance-time-before-transition", "liesel/goose/engine.py",
     """            epoch = carry.epoch
            out = self._kernel_sequence.transition(
                key_trans, carry.kernel_states, carry.model_state, epoch
            )
            epoch.advance_time(1)
""",
     """            epoch = carry.epoch
            epoch.advance_time(1)
            out = self._kernel_sequence.transition(
                key_trans, carry.kernel_states, carry.model_state, epoch
            )
"""),
    ("C07-tune-in-all-warmup-epochs", "liesel/goose/engine.py",
     "        if EpochType.is_adaptation(epoch.config.type):\n            tune_keys",
     "        if EpochType.is_warmup(epoch.config.type):\n            tune_keys"),
    ("C07-no-start-epoch-for-posterior", "liesel/goose/engine.py",
     "        self._kernel_start_epoch()\n",
     "        if self.current_epoch.config.type != EpochType.POSTERIOR:\n            self._kernel_start_epoch()\n"),
    ("C07-history-from-all-epochs", "liesel/goose/engine.py",
     """                history = (
                    self._position_chain.get_current_chain()
                    .get()
                    .expect("The history must contain samples.")
                )""",
     """                history = self._position_chain.combine_all().expect(
                    "The history must contain samples."
                )"""),
    ("C07-end-epoch-after-tune", "liesel/goose/engine.py",
     """        end_keys = self._split_prng_key_one()
        self._kernel_states = jax.vmap(
            self._kernel_sequence.end_epoch, in_axes=(0, 0, 0, None)
        )(end_keys, self._kernel_states, self._model_states, epoch)

        self._tune_kernels(epoch)
""",
     """        self._tune_kernels(epoch)

        end_keys = self._split_prng_key_one()
        self._kernel_states = jax.vmap(
            self._kernel_sequence.end_epoch, in_axes=(0, 0, 0, None)
        )(end_keys, self._kernel_states, self._model_states, epoch)
"""),
    ("C07-adaptive-dispatch-includes-burnin", "liesel/goose/kernel.py",
     "        is_adaptation = EpochType.is_adaptation(epoch.config.type)\n",
     "        is_adaptation = EpochType.is_warmup(epoch.config.type)\n"),
    ("C07-slow-tune-dispatch-swapped", "liesel/goose/kernel.py",
     "        is_slow = epoch.config.type == EpochType.SLOW_ADAPTATION\n",
     "        is_slow = epoch.config.type == EpochType.FAST_ADAPTATION\n"),
    ("C07-warmup-flag-set-at-first-sampled-epoch", "liesel/goose/engine.py",
     "        self._warmup_has_ended = True\n",
     "        self._warmup_has_ended = self._epoch_manager.has_more()\n"),
    # ------------------------------------------------------------------ C08
    ("C08-states-counter-starts-at-zero", "liesel/goose/chain.py",
     "        self._states_counter = 1\n", "        self._states_counter = 0\n"),
    ("C08-thinning-offset-one", "liesel/goose/chain.py",
     "(self._states_counter + np.arange(size)) % th == 0]", "(self._states_counter + np.arange(size)) % th == 1]"),
    ("C08-counter-not-advanced-on-empty-chunk", "liesel/goose/chain.py",
     """            self._states_counter += size

            if len(idx) > 0:
                chunk = slice_leaves(chunk, np.s_[:, idx, ...])
""",
     """            if len(idx) > 0:
                self._states_counter += size
                chunk = slice_leaves(chunk, np.s_[:, idx, ...])
"""),
    ("C08-position-from-state-before-iteration", "liesel/goose/engine.py",
     """            position = self._model.extract_position(
                self._position_keys, out.model_state
            )""",
     """            position = self._model.extract_position(
                self._position_keys, carry.model_state
            )"""),
    ("C08-posterior-samples-include-warmup", "liesel/goose/engine.py",
     """        opt = self.positions.combine_filtered(
            lambda config: config.type == EpochType.POSTERIOR
        )
        return opt.expect(f"No posterior samples in {repr(self)}")""",
     """        opt = self.positions.combine_filtered(
            lambda config: config.type != EpochType.INITIAL_VALUES
        )
        return opt.expect(f"No posterior samples in {repr(self)}")"""),
    ("C08-builder-ignores-positions-excluded", "liesel/goose/builder.py",
     "        pos_keys = [key for key in pos_keys if key not in self.positions_excluded]\n", ""),
    ("C08-quantities-not-thinned", "liesel/goose/engine.py",
     """        self._quantities_chain: EpochChainManager = EpochChainManager(
            apply_thinning=True
        )""",
     """        self._quantities_chain: EpochChainManager = EpochChainManager(
            apply_thinning=False
        )"""),
    ("C08-quantity-from-state-before-iteration", "liesel/goose/engine.py",
     "                    quant = qg.generate(key, out.model_state, epoch)",
     "                    quant = qg.generate(key, carry.model_state, epoch)"),
    # ------------------------------------------------------------------ C10
    ("C10-same-key-for-every-kernel", "liesel/goose/kernel_sequence.py",
     "            result = kernel.transition(keys[i], kernel_states[i], model_state, epoch)",
     "            result = kernel.transition(prng_key, kernel_states[i], model_state, epoch)"),
    ("C10-carry-key-handed-out", "liesel/goose/engine.py",
     "        self._prng_key = keys[:, 0, :]\n", "        self._prng_key = keys[:, 1, :]\n"),
    ("C10-seeds-not-split-per-chain", "liesel/goose/builder.py",
     "            seeds = jax.random.split(seeds, self._num_chains)\n",
     "            seeds = jnp.tile(seeds, (self._num_chains, 1))\n"),
    ("C10-jitter-one-key-for-all-chains", "liesel/goose/builder.py",
     "                    jax.random.split(jitter_keys[i], self._num_chains),\n",
     "                    jnp.tile(jitter_keys[i], (self._num_chains, 1)),\n"),
    ("C10-multi-chain-states-broadcast-chain0", "liesel/goose/builder.py",
     "            model_states = model_state\n",
     "            model_states = jax.tree_util.tree_map(\n                lambda x: jnp.broadcast_to(x[0], x.shape), model_state\n            )\n"),
    ("C10-quantity-key-equals-transition-key", "liesel/goose/engine.py",
     "            key_trans, key_quants = jax.random.split(key)\n",
     "            key_trans, key_quants = key, key\n"),
    ("C10-end-epoch-key-reused", "liesel/goose/engine.py",
     "        end_keys = self._split_prng_key_one()\n", "        end_keys = self._seeds\n"),
    ("C10-int-seed-offset", "liesel/goose/builder.py",
     "            keys = jax.random.split(jax.random.PRNGKey(seed), 3)\n",
     "            keys = jax.random.split(jax.random.PRNGKey(seed), 4)[1:]\n"),
    # ------------------------------------------------------------------ C16
    ("C16-divisibility-required-for-warmup-too", "liesel/goose/epoch.py",
     """            if config.type == EpochType.POSTERIOR:
                if config.duration % config.thinning != 0:
                    raise RuntimeError("Duration must be a multiple of thinning")
""",
     """            if config.duration % config.thinning != 0:
                raise RuntimeError("Duration must be a multiple of thinning")
"""),
    ("C16-posterior-divisibility-dropped", "liesel/goose/epoch.py",
     """            if config.type == EpochType.POSTERIOR:
                if config.duration % config.thinning != 0:
                    raise RuntimeError("Duration must be a multiple of thinning")
""", ""),
    ("C16-warmup-after-posterior-checks-first-config", "liesel/goose/epoch.py",
     "            and self._configs[-1].type == EpochType.POSTERIOR\n",
     "            and self._configs[0].type == EpochType.POSTERIOR\n"),
    ("C16-start-time-not-accumulated", "liesel/goose/epoch.py",
     "            self._next_start_time += config.duration\n",
     "            self._next_start_time = config.duration\n"),
    ("C16-nth-epoch-from-config-count", "liesel/goose/epoch.py",
     "            state = config.to_state(self._next_epoch_ptr, start_time)\n",
     "            state = config.to_state(len(self._configs) - 1, start_time)\n"),
    ("C16-thinning-equal-duration-rejected", "liesel/goose/epoch.py",
     "            if config.duration < config.thinning:\n",
     "            if config.duration <= config.thinning:\n"),
    ("C16-stan-term-forgotten", "liesel/goose/warmup.py",
     "    time_left = warmup_duration - init_duration - term_duration\n",
     "    time_left = warmup_duration - init_duration\n"),
    ("C16-stan-window-condition-2x", "liesel/goose/warmup.py",
     "    while 3 * this_time <= time_left:\n", "    while 2 * this_time <= time_left:\n"),
    ("C16-stan-min-warmup-off-by-one", "liesel/goose/warmup.py",
     "    if warmup_duration < init_duration + term_duration + base_duration:\n",
     "    if warmup_duration <= init_duration + term_duration + base_duration:\n"),
    ("C16-builder-chunk-from-posterior-only", "liesel/goose/builder.py",
     "        durations = [e.duration for e in epochs[1:]]\n",
     "        durations = [e.duration for e in epochs[-1:]]\n"),
    # ------------------------------------------------------------------ C19
    ("C19-error-log-mask-all-chains", "liesel/goose/engine.py",
     "            mask = np.any(tis[ker_name].error_code != 0, axis=0)\n",
     "            mask = np.all(tis[ker_name].error_code != 0, axis=0)\n"),
    ("C19-posterior-counts-from-overall-log", "liesel/goose/summary_m.py",
     "            kel_post = posterior_error_log_unwrapped[kel.kernel_ident]\n",
     "            kel_post = kel\n"),
    ("C19-warmup-count-is-total", "liesel/goose/summary_m.py",
     '        df["warmup"] = df["total"] - df["posterior"]\n', '        df["warmup"] = df["total"]\n'),
    ("C19-warmup-size-includes-initial-epoch", "liesel/goose/summary_m.py",
     "            [epoch.duration for epoch in epochs if epoch.type.is_warmup(epoch.type)]\n",
     "            [epoch.duration for epoch in epochs if epoch.type != 4]\n"),
    ("C19-error-message-of-wrong-code", "liesel/goose/summary_m.py",
     '                "", lambda krn_cls: krn_cls.error_book[ec]  # type: ignore\n',
     '                "", lambda krn_cls: krn_cls.error_book[max(counter_dict)]  # type: ignore\n'),
    ("C19-posterior-error-log-includes-burnin", "liesel/goose/engine.py",
     """            opt = self.transition_infos.combine_filtered(
                lambda config: config.type == EpochType.POSTERIOR
            )
            if opt.is_none():""",
     """            opt = self.transition_infos.combine_filtered(
                lambda config: config.type >= EpochType.BURNIN
            )
            if opt.is_none():"""),
    ("C19-arviz-warmup-includes-initial-values", "liesel/experimental/arviz.py",
     "            lambda ec: ec.type.is_warmup(ec.type)\n", "            lambda ec: ec.type != 4\n"),
    ("C19-error-codes-counted-over-flattened-log", "liesel/goose/summary_m.py",
     "            occurences_per_chain = np.sum(kel.error_codes == ec, axis=1)\n            counter_dict[ec] = occurences_per_chain\n",
     "            occurences_per_chain = np.sum(kel.error_codes == ec, axis=1)\n            counter_dict[ec] = np.sort(occurences_per_chain)[::-1]\n"),
    # ------------------------------------------------------------------ C01
    ("C01-setter-flags-direct-outputs-only", "liesel/model/nodes.py",
     """        if self.model:
            for node in self.outputs:
                node.flag_outdated()
""",
     """        if self.model:
            for node in self.outputs:
                node._outdated = True
"""),
    ("C01-transient-outdated-all", "liesel/model/nodes.py",
     "        return any(_input.outdated for _input in self.all_input_nodes())\n",
     "        return all(_input.outdated for _input in self.all_input_nodes())\n"),
    ("C01-recursive-inputs-without-kwinputs-and-at", "liesel/model/model.py",
     "            nodes.extend(node.all_input_nodes())\n            visited.append(node)\n\n        return visited\n",
     "            nodes.extend(node.inputs)\n            visited.append(node)\n\n        return visited\n"),
    ("C01-dist-all-input-nodes-drops-at", "liesel/model/nodes.py",
     """        if self.at:
            inputs = _unique_tuple(inputs, [self.at])

        return inputs""",
     """        return inputs"""),
    ("C01-calc-flag-cleared-before-evaluation", "liesel/model/nodes.py",
     """        kwargs = {kw: _input.value for kw, _input in self.kwinputs.items()}
        try:
            self._value = self.function(*args, **kwargs)
        except Exception as e:
            raise RuntimeError(f"Error while updating {self}.") from e
        self._outdated = False
        return self""",
     """        kwargs = {kw: _input.value for kw, _input in self.kwinputs.items()}
        self._outdated = False
        try:
            self._value = self.function(*args, **kwargs)
        except Exception as e:
            raise RuntimeError(f"Error while updating {self}.") from e
        return self"""),
    ("C01-state-setter-skips-flag", "liesel/model/nodes.py",
     """    @state.setter
    def state(self, state: NodeState):
        self._value = state.value
        self._outdated = state.outdated

    @abstractmethod""",
     """    @state.setter
    def state(self, state: NodeState):
        self._value = state.value

    @abstractmethod"""),
    ("C01-auto-update-targets-direct-outputs", "liesel/model/nodes.py",
     "            if self.model.auto_update:\n                self.model.update()\n",
     "            if self.model.auto_update:\n                self.model.update(*(n.name for n in self.outputs))\n"),
    ("C01-recursive-inputs-stop-at-transient-nodes", "liesel/model/model.py",
     "            nodes.extend(node.all_input_nodes())\n            visited.append(node)\n\n        return visited\n",
     "            if not isinstance(node, (TransientIdentity, InputGroup)) or node is self._nodes[name]:\n                nodes.extend(node.all_input_nodes())\n            visited.append(node)\n\n        return visited\n"),
    # ------------------------------------------------------------------ C17
    ("C17-simulation-order-without-reversed-at-edge", "liesel/model/model.py",
     """                if isinstance(node, Dist) and _input is node.at:
                    edges.append((node, _input))
                    if isinstance(_input, VarValue):
                        # the draw is written to the value node of the variable, so
                        # nodes that use this node directly come after the dist, too
                        edges.append((node, _input.inputs[0]))
                else:
                    edges.append((_input, node))""",
     """                edges.append((_input, node))"""),
    ("C17-sample-shape-off-by-one", "liesel/model/model.py",
     "            sample_shape = value_shape[:sample_index]\n", "            sample_shape = value_shape[: sample_index + 1]\n"),
    ("C17-skip-only-by-dist-name", "liesel/model/model.py",
     """            and node.at.name not in skip
            and (node.var is not None and node.var.name not in skip)""",
     """            and node.var is not None"""),
    ("C17-update-only-positional-inputs", "liesel/model/model.py",
     "                input_names = [n.name for n in (*dist.inputs, *dist.kwinputs.values())]\n",
     "                input_names = [n.name for n in dist.inputs]\n"),
    ("C17-same-seed-for-all-dists", "liesel/model/model.py",
     "        seeds = jax.random.split(seed, len(dists))\n\n        for dist, seed in zip(dists, seeds):",
     "        seeds = [seed for _ in dists]\n\n        for dist, seed in zip(dists, seeds):"),
    # ------------------------------------------------------------------ C15
    ("C15-per-obs-setter-unguarded", "liesel/model/nodes.py",
     "    @per_obs.setter\n    @no_model_setter\n    def per_obs", "    @per_obs.setter\n    def per_obs"),
    ("C15-duplicate-inputs-listed-twice-as-outputs", "liesel/model/nodes.py",
     "        self._outputs = _unique_tuple(self._outputs, [output])\n", "        self._outputs = (*self._outputs, output)\n",
     ("liesel/model/model.py", "            for _input in node.all_input_nodes():\n                _input._add_output(node)\n",
      "            for _input in (*node.inputs, *node.kwinputs.values()):\n                _input._add_output(node)\n            if isinstance(node, Dist) and node.at is not None:\n                node.at._add_output(node)\n")),
    ("C15-outputs-not-cleared-at-build", "liesel/model/model.py",
     "            node._clear_outputs()\n            node._set_model(self)\n", "            node._set_model(self)\n"),
    ("C15-var-observed-setter-unguarded", "liesel/model/nodes.py",
     "    @observed.setter\n    @no_model_setter\n    def observed", "    @observed.setter\n    def observed"),
    ("C15-duplicate-group-names-unchecked", "liesel/model/model.py",
     '            raise RuntimeError(f"Duplicate group names: {\', \'.join(dups)}")\n', "            pass\n"),
    ("C15-missing-names-may-collide", "liesel/model/model.py",
     """                while name in other:
                    name = f"{prefix}{(counter := counter + 1)}"

""", ""),
    ("C15-build-copy-is-shallow", "liesel/model/model.py",
     "            self._nodes, self._vars = deepcopy((self._nodes, self._vars))\n",
     "            self._nodes, self._vars = dict(self._nodes), dict(self._vars)\n"),
    ("C15-duplicate-var-names-unchecked", "liesel/model/model.py",
     '            raise RuntimeError(f"Duplicate variable names: {\', \'.join(dups)}")\n', "            pass\n"),
    ("C15-var-value-node-setter-unguarded", "liesel/model/nodes.py",
     "    @value_node.setter\n    @no_model_setter\n", "    @value_node.setter\n"),
    ("C15-getstate-drops-outdated-flag", "liesel/model/nodes.py",
     '        state = self.__dict__.copy()\n        state["_model"] = self._model()\n        return state\n',
     '        state = self.__dict__.copy()\n        state["_model"] = self._model()\n        state["_outdated"] = False\n        return state\n'),
    ("C15-set-inputs-unguarded", "liesel/model/nodes.py",
     "    @no_model_method\n    def set_inputs(", "    def set_inputs("),
    # ------------------------------------------------------------------ C02
    ("C02-log-prior-selects-observed", "liesel/model/model.py",
     "        inputs = (v.dist_node for v in _vars if v.has_dist and v.parameter)\n",
     "        inputs = (v.dist_node for v in _vars if v.has_dist and v.observed)\n"),
    ("C02-log-prob-drops-bare-dist-nodes", "liesel/model/model.py",
     "        inputs = (n for n in nodes if isinstance(n, Dist))\n        node = Calc(\n            _reduced_sum, *inputs, _name=\"_model_log_prob\"",
     "        inputs = (n for n in nodes if isinstance(n, Dist) and n.var is not None)\n        node = Calc(\n            _reduced_sum, *inputs, _name=\"_model_log_prob\""),
    ("C02-reduced-sum-without-reduction", "liesel/model/model.py",
     '    reduced = (arg.sum() if hasattr(arg, "sum") else arg for arg in args)\n', "    reduced = args\n"),
    ("C02-dist-sums-when-per-obs", "liesel/model/nodes.py",
     """        log_prob = self.init_dist().log_prob(self.at.value)

        if not self.per_obs and hasattr(log_prob, "sum"):
            log_prob = log_prob.sum()

        self._value = log_prob""",
     """        log_prob = self.init_dist().log_prob(self.at.value)

        if self.per_obs and hasattr(log_prob, "sum"):
            log_prob = log_prob.sum()

        self._value = log_prob"""),
    ("C02-user-log-lik-node-ignored", "liesel/model/model.py",
     '        if self.log_lik_node:\n            self.add(TransientIdentity(self.log_lik_node, _name="_model_log_lik"))\n            return self\n', ""),
    ("C02-log-lik-counts-unflagged-vars", "liesel/model/model.py",
     "        inputs = (v.dist_node for v in _vars if v.has_dist and v.observed)\n",
     "        inputs = (v.dist_node for v in _vars if v.has_dist and not v.parameter)\n"),
    ("C02-transient-dist-never-sums", "liesel/model/nodes.py",
     """        log_prob = self.init_dist().log_prob(self.at.value)

        if not self.per_obs and hasattr(log_prob, "sum"):
            log_prob = log_prob.sum()

        return log_prob""",
     """        log_prob = self.init_dist().log_prob(self.at.value)

        return log_prob"""),
    # ------------------------------------------------------------------ C14
    ("C14-instance-path-forgets-invert", "liesel/model/nodes.py",
     "    bijector_inv = jb.Invert(bijector_inst)\n\n    def transform_dist(*args, **kwargs):\n        return jd.TransformedDistribution(InputDist(*args, **kwargs), bijector_inv)",
     "    bijector_inv = jb.Invert(bijector_inst)\n\n    def transform_dist(*args, **kwargs):\n        return jd.TransformedDistribution(InputDist(*args, **kwargs), bijector_inst)"),
    ("C14-instance-path-initial-value-uses-forward", "liesel/model/nodes.py",
     "        bijector_inv.forward(var.value),\n        transformed_dist,",
     "        bijector_inst.forward(var.value),\n        transformed_dist,"),
    ("C14-instance-path-back-transform-uses-inverse", "liesel/model/nodes.py",
     "    var.value_node = Calc(bijector_inst.forward, transformed_var)\n",
     "    var.value_node = Calc(bijector_inst.inverse, transformed_var)\n"),
    ("C14-parameter-flag-not-moved", "liesel/model/nodes.py",
     "        tvar.parameter = self.parameter  # type: ignore\n        self.parameter = False\n", "        self.parameter = False\n"),
    ("C14-instance-path-per-obs-not-copied", "liesel/model/nodes.py",
     "    transformed_dist.per_obs = var.dist_node.per_obs\n", ""),
    ("C14-original-keeps-distribution", "liesel/model/nodes.py",
     "        self.parameter = False\n        self.dist_node = None\n\n        return tvar",
     "        self.parameter = False\n\n        return tvar"),
    ("C14-class-path-back-transform-uses-forward", "liesel/model/nodes.py",
     "        bijector = transform_dist(dist_inputs, bijector_inputs).bijector\n        return bijector.inverse(value)\n",
     "        bijector = transform_dist(dist_inputs, bijector_inputs).bijector\n        return bijector.forward(value)\n"),
    ("C14-class-path-bijector-args-frozen-at-transform-time", "liesel/model/nodes.py",
     "    bijector_inputs = InputGroup(*args, **kwargs)\n\n    # define distribution \"class\" for the transformed var\n    def transform_dist(dist_args: ArgGroup, bijector_args: ArgGroup):\n        tfp_dist = InputDist(*dist_args.args, **dist_args.kwargs)\n        bjargs, bjkwargs = bijector_args.args, bijector_args.kwargs\n",
     "    bijector_inputs = InputGroup(*args, **kwargs)\n    frozen_args = bijector_inputs.value\n\n    # define distribution \"class\" for the transformed var\n    def transform_dist(dist_args: ArgGroup, bijector_args: ArgGroup):\n        tfp_dist = InputDist(*dist_args.args, **dist_args.kwargs)\n        bjargs, bjkwargs = frozen_args.args, frozen_args.kwargs\n"),
    ("C14-deprecated-path-parameter-flag-not-moved", "liesel/model/model.py",
     "        var_transformed.parameter = var.parameter\n", ""),
    # ------------------------------------------------------------------ C03
    ("C03-interface-keeps-the-users-model", "liesel/goose/interface.py",
     "        self._model = model._copy_computational_model()\n", "        self._model = model\n"),
    ("C03-dirty-flags-not-cleared", "liesel/goose/interface.py",
     "        for node in self._model.nodes.values():\n            node._outdated = False\n\n", ""),
    ("C03-state-restored-without-model-totals", "liesel/goose/interface.py",
     "        self._model.state = model_state\n",
     "        self._model.state = {\n            k: v for k, v in model_state.items() if not k.startswith(\"_model\")\n        }\n"),
    ("C03-extract-position-variable-name-first", "liesel/goose/interface.py",
     """            try:
                position[key] = model_state[key].value
            except KeyError:
                node_key = self._model.vars[key].value_node.name
                position[key] = model_state[node_key].value""",
     """            try:
                node_key = self._model.vars[key].value_node.name
                position[key] = model_state[node_key].value
            except KeyError:
                position[key] = model_state[key].value"""),
    ("C03-copy-computational-model-forgets-restore", "liesel/model/model.py",
     "        empty = deepcopy(self)\n        self.state = backup\n", "        empty = deepcopy(self)\n"),
    ("C03-dataclass-interface-mutates-in-place", "liesel/goose/interface.py",
     "        new_state = copy.copy(model_state)  # don't change the input\n", "        new_state = model_state\n"),
    ("C03-update-state-targeted-update", "liesel/goose/interface.py",
     "                self._model.vars[key].value = value\n\n        self._model.update()\n        return self._model.state\n",
     "                self._model.vars[key].value = value\n\n        self._model.update(*position.keys())\n        return self._model.state\n"),
    ("C03-update-state-variable-name-first", "liesel/goose/interface.py",
     """            try:
                self._model.nodes[key].value = value  # type: ignore  # data node
            except KeyError:
                self._model.vars[key].value = value

        self._model.update()
        return self._model.state""",
     """            try:
                self._model.vars[key].value = value
            except KeyError:
                self._model.nodes[key].value = value  # type: ignore  # data node

        self._model.update()
        return self._model.state"""),
    ("C03-log-prob-returns-likelihood", "liesel/goose/interface.py",
     '        return model_state["_model_log_prob"].value\n', '        return model_state["_model_log_lik"].value\n'),
    ("C03-goose-model-skips-state-restore-when-same-keys", "liesel/model/goose.py",
     "        self._model.state = model_state\n\n        for node in self._model.nodes.values():",
     "        if not getattr(self, \"_seen\", False):\n            self._model.state = model_state\n            self._seen = True\n\n        for node in self._model.nodes.values():"),
    ("C03-namedtuple-interface-ignores-position", "liesel/goose/interface.py",
     "        new_state = model_state._replace(**position)\n", "        new_state = model_state._replace(**{k: v for k, v in list(position.items())[:1]})\n"),
    # ------------------------------------------------------------------ C20
    ("C20-full-window-check-loosened", "liesel/goose/optim.py",
     "        current_i_is_after_patience = i > p\n", "        current_i_is_after_patience = i > p // 2\n"),
    ("C20-newest-loss-taken-as-oldest", "liesel/goose/optim.py",
     "        oldest_loss_in_recent = recent_history[0]\n", "        oldest_loss_in_recent = recent_history[-1]\n"),
    ("C20-best-index-off-by-one", "liesel/goose/optim.py",
     "        return i - self.patience + imin + 1\n", "        return i - self.patience + imin\n"),
    ("C20-nan-padding-starts-one-early", "liesel/goose/optim.py",
     '        val["history"]["loss_validation"].at[(max_iter + 1) :].set(jnp.nan)\n', '        val["history"]["loss_validation"].at[max_iter:].set(jnp.nan)\n'),
    ("C20-final-state-from-last-position", "liesel/goose/optim.py",
     "    final_state = interface_train.update_state(final_position, model_train.state)\n",
     "    final_state = interface_train.update_state(val[\"position\"], model_train.state)\n"),
    ("C20-relative-tolerance-uses-oldest", "liesel/goose/optim.py",
     "        rel_diff = diff / jnp.abs(best_loss_in_recent)\n", "        rel_diff = diff / jnp.abs(oldest_loss_in_recent)\n"),
    ("C20-max-iter-off-by-one", "liesel/goose/optim.py",
     "        stop_max_iter = i >= (self.max_iter - 1)\n", "        stop_max_iter = i >= (self.max_iter - 2)\n"),
    ("C20-restored-patience-forgotten", "liesel/goose/optim.py",
     "    stopper.patience = user_patience\n", ""),
    # ------------------------------------------------------------------ C05
    ("C05-nan-ratio-mapped-to-plus-inf", "liesel/goose/mh.py",
     "        lambda: (-jnp.inf, 90),\n", "        lambda: (jnp.inf, 90),\n"),
    ("C05-error-code-90-dropped", "liesel/goose/mh.py",
     "        lambda: (-jnp.inf, 90),\n", "        lambda: (-jnp.inf, 0),\n"),
    ("C05-state-branches-swapped", "liesel/goose/mh.py",
     "        lambda: proposed_model_state,\n        lambda: model_state,\n", "        lambda: model_state,\n        lambda: proposed_model_state,\n"),
    ("C05-acceptance-prob-not-clipped", "liesel/goose/mh.py",
     "    acceptance_prob = jnp.clip(jnp.exp(log_acc_prob), max=1.0)\n", "    acceptance_prob = jnp.exp(log_acc_prob)\n"),
    ("C05-correction-ignored", "liesel/goose/mh.py",
     "    log_acc_prob = proposed_log_prob - current_log_prob + log_correction\n", "    log_acc_prob = proposed_log_prob - current_log_prob\n"),
    ("C05-moved-flag-from-probability", "liesel/goose/mh.py",
     "    info = DefaultTransitionInfo(error_code, acceptance_prob, do_accept)\n", "    info = DefaultTransitionInfo(error_code, acceptance_prob, acceptance_prob > 0)\n"),
    ("C05-nan-guard-checks-only-proposal", "liesel/goose/mh.py",
     "        jnp.isnan(log_acc_prob),\n", "        jnp.isnan(proposed_log_prob),\n"),
    # ------------------------------------------------------------------ C12
    ("C12-history-of-all-tracked-keys", "liesel/goose/nuts.py",
     "            history = Position({k: history[k] for k in self.position_keys})\n", "            history = Position(dict(history))\n"),
    ("C12-population-variance", "liesel/goose/mm.py",
     "    var = jnp.var(matrix, axis=0, ddof=1)\n", "    var = jnp.var(matrix, axis=0, ddof=0)\n"),
    ("C12-diag-regulariser-dropped", "liesel/goose/mm.py",
     "    var = var + 0.001\n", ""),
    ("C12-dense-rowvar", "liesel/goose/mm.py",
     "    cov = jnp.cov(matrix, rowvar=False)\n", "    cov = jnp.cov(matrix.T[::-1].T, rowvar=False)\n"),
    ("C12-hmc-history-in-listed-order", "liesel/goose/hmc.py",
     "                new_inv_mm = tune_inv_mm_diag(history)\n",
     "                new_inv_mm = jnp.concatenate([jnp.atleast_1d(tune_inv_mm_diag({k: v})) for k, v in history.items()])\n"),
    ("C12-tune-after-every-adaptation-epoch", "liesel/goose/kernel.py",
     "        is_slow = epoch.config.type == EpochType.SLOW_ADAPTATION\n", "        is_slow = epoch.config.type >= EpochType.FAST_ADAPTATION\n"),
    # ------------------------------------------------------------------ C11
    ("C11-eta-positive-exponent", "liesel/goose/da.py", "    eta = t ** (-kappa)\n", "    eta = 1.0 / (t ** (1 - kappa) + 1)\n"),
    ("C11-error-sum-sign", "liesel/goose/da.py",
     "    ks.error_sum += target_accept - acceptance_prob\n", "    ks.error_sum += acceptance_prob - target_accept\n"),
    ("C11-rw-no-restart-at-epoch-start", "liesel/goose/rw.py",
     "        da_init(kernel_state)\n        return kernel_state\n", "        return kernel_state\n"),
    ("C11-rw-adapts-in-every-epoch", "liesel/goose/rw.py",
     "        info, model_state = mh_step(subkey, self.model, proposal, model_state)\n        return TransitionOutcome(info, kernel_state, model_state)\n",
     "        info, model_state = mh_step(subkey, self.model, proposal, model_state)\n        da_step(\n            kernel_state,\n            info.acceptance_prob,\n            epoch.time_in_epoch,\n            self.da_target_accept,\n            self.da_gamma,\n            self.da_kappa,\n            self.da_t0,\n        )\n        return TransitionOutcome(info, kernel_state, model_state)\n"),
    ("C11-finalize-uses-mu", "liesel/goose/da.py",
     "    kernel_state.step_size = jnp.exp(kernel_state.log_avg_step_size)\n", "    kernel_state.step_size = jnp.exp(kernel_state.mu) / 10.0\n"),
    ("C11-time-not-shifted", "liesel/goose/da.py", "    t = time_in_epoch + 1\n", "    t = jnp.maximum(time_in_epoch, 1)\n"),
    ("C11-nuts-uses-global-time", "liesel/goose/nuts.py",
     "            outcome.info.acceptance_prob,\n            epoch.time_in_epoch,\n", "            outcome.info.acceptance_prob,\n            epoch.time,\n"),
    ("C11-iwls-ignores-configured-target", "liesel/goose/iwls.py",
     "            epoch.time_in_epoch,\n            self.da_target_accept,\n", "            epoch.time_in_epoch,\n            0.8,\n"),
    ("C11-mh-tunes-although-switched-off", "liesel/goose/mh_kernel.py",
     "        if self.da_tune_step_size:\n            da_step(", "        if self.da_tune_step_size or epoch.config.type == 2:\n            da_step("),
    ("C11-hmc-finalize-only-after-adaptation", "liesel/goose/hmc.py",
     "        da_finalize(kernel_state)\n        return kernel_state\n", "        kernel_state.step_size = jnp.exp(0.5 * (kernel_state.log_avg_step_size + jnp.log(kernel_state.step_size)))\n        return kernel_state\n"),
    # ------------------------------------------------------------------ C09
    ("C09-every-kernel-starts-from-the-iteration-start-state", "liesel/goose/kernel_sequence.py",
     "        for i, kernel in enumerate(self._kernels):\n            result = kernel.transition(keys[i], kernel_states[i], model_state, epoch)\n            model_state = result.model_state\n",
     "        start_state = model_state\n        for i, kernel in enumerate(self._kernels):\n            result = kernel.transition(keys[i], kernel_states[i], start_state, epoch)\n            model_state = result.model_state\n"),
    ("C09-mh-step-keeps-old-log-prob-on-accept", "liesel/goose/mh.py",
     "        lambda: proposed_model_state,\n",
     "        lambda: (\n            {**proposed_model_state, \"_model_log_prob\": model_state[\"_model_log_prob\"]}\n            if isinstance(model_state, dict) and \"_model_log_prob\" in model_state\n            else proposed_model_state\n        ),\n"),
    ("C09-iwls-rejection-returns-proposal-state", "liesel/goose/iwls.py",
     "            subkey, self.model, proposal, model_state, correction\n", "            subkey, self.model, proposal, model_state_prop, correction\n"),
    ("C09-kernels-run-in-reverse-order", "liesel/goose/kernel_sequence.py",
     "        for i, kernel in enumerate(self._kernels):\n            result = kernel.transition(keys[i], kernel_states[i], model_state, epoch)\n            model_state = result.model_state\n            kstates.append(result.kernel_state)\n            infos[kernel.identifier] = result.info\n",
     "        kstates = [None] * len(self._kernels)\n        for i, kernel in reversed(list(enumerate(self._kernels))):\n            result = kernel.transition(keys[i], kernel_states[i], model_state, epoch)\n            model_state = result.model_state\n            kstates[i] = result.kernel_state\n            infos[kernel.identifier] = result.info\n"),
    ("C09-gibbs-writes-position-without-model-update", "liesel/goose/gibbs.py",
     "        model_state = self.model.update_state(position, model_state)\n",
     "        first = next(iter(model_state.values()), None)\n        if hasattr(first, \"_replace\"):\n            model_state = model_state | {\n                f\"{k}_value\": model_state[f\"{k}_value\"]._replace(value=v)\n                for k, v in position.items()\n            }\n        else:\n            model_state = self.model.update_state(position, model_state)\n"),
    ("C09-nuts-keeps-derived-nodes-of-previous-state", "liesel/goose/nuts.py",
     "        model_state = self.model.update_state(blackjax_state.position, model_state)\n        return TransitionOutcome(info, kernel_state, model_state)\n",
     "        new_state = self.model.update_state(blackjax_state.position, model_state)\n        if isinstance(new_state, dict) and \"_model_log_prob\" in new_state:\n            new_state = new_state | {\"_model_log_prob\": model_state[\"_model_log_prob\"]}\n        return TransitionOutcome(info, kernel_state, new_state)\n"),
    # ------------------------------------------------------------------ C06
    ("C06-mvn-log-prob-without-log-determinant", "liesel/goose/iwls_utils.py",
     "    return log_prob + adjustment\n", "    return log_prob\n"),
    ("C06-proposal-precision-times-step-size", "liesel/goose/iwls.py",
     "        fwd_log_prob = mvn_log_prob(flat_prop, mu_pos, chol_info_pos / step_size)\n",
     "        fwd_log_prob = mvn_log_prob(flat_prop, mu_pos, chol_info_pos * step_size)\n"),
    ("C06-backward-mean-uses-forward-score", "liesel/goose/iwls.py",
     "        mu_prop = flat_prop + ((step_size**2) / 2) * solve(chol_info_prop, score_prop)\n",
     "        mu_prop = flat_prop + ((step_size**2) / 2) * solve(chol_info_prop, score_pos)\n"),
    ("C06-solve-second-substitution-not-transposed", "liesel/goose/iwls_utils.py",
     "    return triangular_solve(chol_lhs, tmp, lower=True)\n", "    return triangular_solve(chol_lhs, tmp, left_side=True, lower=True)\n"),
    ("C06-mh-kernel-negates-correction", "liesel/goose/mh_kernel.py",
     "            proposal.log_correction,\n", "            -proposal.log_correction,\n"),
    ("C06-iwls-correction-sign", "liesel/goose/iwls.py",
     "        correction = bwd_log_prob - fwd_log_prob\n", "        correction = fwd_log_prob - bwd_log_prob\n"),
    ("C06-iwls-drift-half-step-not-squared", "liesel/goose/iwls.py",
     "        mu_pos = flat_pos + ((step_size**2) / 2) * solve(chol_info_pos, score_pos)\n",
     "        mu_pos = flat_pos + (step_size / 2) * solve(chol_info_pos, score_pos)\n"),
    ("C06-backward-information-at-current-point", "liesel/goose/iwls.py",
     "        chol_info_prop = self._chol_info(model_state_prop, flat_hessian_fn)\n", "        chol_info_prop = chol_info_pos\n"),
    # ------------------------------------------------------------------ C04
    ("C04-mh-step-ignores-correction", "liesel/goose/mh.py",
     "    log_acc_prob = proposed_log_prob - current_log_prob + log_correction\n", "    log_acc_prob = proposed_log_prob - current_log_prob\n"),
    ("C04-iwls-correction-sign", "liesel/goose/iwls.py",
     "        correction = bwd_log_prob - fwd_log_prob\n", "        correction = fwd_log_prob - bwd_log_prob\n"),
    ("C04-log-prob-fn-evaluates-old-state", "liesel/goose/kernel.py",
     "            new_model_state = self.model.update_state(position, model_state)\n            return self.model.log_prob(new_model_state)\n",
     "            new_model_state = self.model.update_state(position, model_state)\n            return 0.5 * self.model.log_prob(new_model_state)\n"),
    ("C04-mh-kernel-negates-correction", "liesel/goose/mh_kernel.py",
     "            proposal.log_correction,\n", "            -proposal.log_correction,\n"),
    ("C04-mh-step-keeps-old-log-prob-on-accept", "liesel/goose/mh.py",
     "        lambda: proposed_model_state,\n",
     "        lambda: (\n            {**proposed_model_state, \"_model_log_prob\": model_state[\"_model_log_prob\"]}\n            if isinstance(model_state, dict) and \"_model_log_prob\" in model_state\n            else proposed_model_state\n        ),\n"),
    # ------------------------------------------------------------------ C13
    ("C13-tau2-shape-uses-full-rank", "liesel/model/distreg.py",
     "        a_gibbs = jnp.squeeze(a_prior + 0.5 * rank)\n", "        a_gibbs = jnp.squeeze(a_prior + rank)\n"),
    ("C13-tau2-scale-without-half", "liesel/model/distreg.py",
     "        b_gibbs = jnp.squeeze(b_prior + 0.5 * (beta @ K @ beta))\n", "        b_gibbs = jnp.squeeze(b_prior + (beta @ K @ beta))\n"),
    ("C13-tau2-gamma-rate-instead-of-inverse", "liesel/model/distreg.py",
     "        draw = b_gibbs / jax.random.gamma(prng_key, a_gibbs)\n", "        draw = jax.random.gamma(prng_key, a_gibbs) / b_gibbs\n"),
    ("C13-tau2-uses-dimension-instead-of-rank", "liesel/model/distreg.py",
     '        rank = group.value_from(model_state, "rank")\n', '        rank = group.value_from(model_state, "beta").shape[-1]\n'),
    ("C13-discrete-uses-prior-only", "liesel/model/goose.py",
     '            model.update("_model_log_prob")\n            return model.log_prob\n', '            model.update("_model_log_prior")\n            return model.log_prior\n'),
    ("C13-discrete-stale-likelihood", "liesel/model/goose.py",
     '            model.update("_model_log_prob")\n            return model.log_prob\n', '            model.update(name)\n            return model.log_prob\n'),
    ("C13-discrete-categorical-on-probabilities", "liesel/model/goose.py",
     "        draw_index = jax.random.categorical(prng_key, logits=conditional_log_probs)\n",
     "        draw_index = jax.random.categorical(\n            prng_key, logits=jnp.exp(conditional_log_probs - conditional_log_probs.max())\n        )\n"),
]

# Semantics-preserving changes: the property still holds, so the check must NOT raise an alarm.
CONTROLS = [
    ("C05-uniform-from-other-half-open-interval", "liesel/goose/mh.py",
     "    do_accept = jax.random.uniform(prng_key) < acceptance_prob\n", "    do_accept = (1.0 - jax.random.uniform(prng_key)) <= acceptance_prob\n"),
    ("C05-minimum-instead-of-clip", "liesel/goose/mh.py",
     "    acceptance_prob = jnp.clip(jnp.exp(log_acc_prob), max=1.0)\n", "    acceptance_prob = jnp.minimum(jnp.exp(log_acc_prob), 1.0)\n"),
    ("C10-kernel-keys-from-a-longer-split", "liesel/goose/kernel_sequence.py",
     "        keys = jax.random.split(prng_key, len(self._kernels))\n        infos: TransitionInfos = {}\n",
     "        keys = jax.random.split(prng_key, len(self._kernels) + 1)[1:]\n        infos: TransitionInfos = {}\n"),
    ("C04-kernel-keys-from-a-longer-split", "liesel/goose/kernel_sequence.py",
     "        keys = jax.random.split(prng_key, len(self._kernels))\n        infos: TransitionInfos = {}\n",
     "        keys = jax.random.split(prng_key, len(self._kernels) + 1)[1:]\n        infos: TransitionInfos = {}\n"),
    ("C02-totals-summed-in-reverse-order", "liesel/model/model.py",
     '    reduced = (arg.sum() if hasattr(arg, "sum") else arg for arg in args)\n    return sum(reduced)\n',
     '    reduced = [arg.sum() if hasattr(arg, "sum") else arg for arg in args]\n    return sum(reversed(reduced))\n'),
    ("C01-totals-summed-in-reverse-order", "liesel/model/model.py",
     '    reduced = (arg.sum() if hasattr(arg, "sum") else arg for arg in args)\n    return sum(reduced)\n',
     '    reduced = [arg.sum() if hasattr(arg, "sum") else arg for arg in args]\n    return sum(reversed(reduced))\n'),
    ("C03-interface-copy-updates-once-per-call", "liesel/goose/interface.py",
     "    def __init__(self, model: \"Model\"):\n        self._model = model._copy_computational_model()\n",
     "    def __init__(self, model: \"Model\"):\n        self._model = model._copy_computational_model()\n        self._model.auto_update = False\n"),
    ("C08-thinning-index-by-modulo-of-position", "liesel/goose/chain.py",
     "            idx = np.arange(size)[(self._states_counter + np.arange(size)) % th == 0]\n",
     "            idx = np.array(\n                [i for i in range(size) if (self._states_counter + i) % th == 0], dtype=int\n            )\n"),
    ("C11-da-step-reordered-arithmetic", "liesel/goose/da.py",
     "    log_step_size = ks.mu - (ks.error_sum * jnp.sqrt(t)) / (gamma * (t0 + t))\n",
     "    log_step_size = ks.mu - (jnp.sqrt(t) / gamma) * (ks.error_sum / (t0 + t))\n"),
    ("C16-stan-epochs-for-loop", "liesel/goose/warmup.py",
     "    while 3 * this_time <= time_left:\n",
     "    while time_left - this_time >= 2 * this_time:\n"),
    ("C07-end-warmup-flag-checked-first", "liesel/goose/engine.py",
     """        if (
            not self._warmup_has_ended
            and self.current_epoch.config.type == EpochType.POSTERIOR
        ):
            self._end_warmup()""",
     """        if self.current_epoch.config.type == EpochType.POSTERIOR:
            if not self._warmup_has_ended:
                self._end_warmup()"""),
    ("C15-outputs-collected-with-a-dict", "liesel/model/nodes.py",
     "        self._outputs = _unique_tuple(self._outputs, [output])\n",
     "        self._outputs = tuple(dict.fromkeys((*self._outputs, output)))\n"),
    ("C17-inputs-updated-in-one-call-per-dist", "liesel/model/model.py",
     "                if input_names:\n                    self.update(*input_names)\n",
     "                for input_name in input_names:\n                    self.update(input_name)\n"),
    ("C12-history-matrix-by-concatenating-sorted-leaves", "liesel/goose/mm.py",
     "    return jax.vmap(_ravel_position)(history)\n",
     "    return jnp.concatenate(\n        [history[k].reshape(history[k].shape[0], -1) for k in sorted(history)], axis=1\n    )\n"),
    ("C19-error-log-mask-via-max", "liesel/goose/engine.py",
     "            mask = np.any(tis[ker_name].error_code != 0, axis=0)\n",
     "            mask = np.max(np.abs(np.asarray(tis[ker_name].error_code)), axis=0) > 0\n"),
    ("C20-stop-early-with-explicit-window", "liesel/goose/optim.py",
     "        diff = oldest_loss_in_recent - best_loss_in_recent\n        abs_improvement_is_neglectable = diff <= self.atol\n",
     "        diff = recent_history[0] - jnp.min(recent_history)\n        abs_improvement_is_neglectable = ~(diff > self.atol) & ~jnp.isnan(diff)\n"),
]

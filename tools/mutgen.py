#!/venv/bin/python
"""Generates mutants/<name>.patch from the declarative list in tools/mutants_src.py.
Each mutant = (name, file, old, new[, count]); old must occur exactly once (or `count` times) in /repo."""
import difflib, os, sys
VERIF = os.path.dirname(os.path.dirname(os.path.abspath(__file__)))
sys.path.insert(0, os.path.join(VERIF, "tools"))
from mutants_src import MUTANTS, CONTROLS
REPO = "/repo"
ok = True
os.makedirs(os.path.join(VERIF, "controls"), exist_ok=True)
for m in [("mutants",) + tuple(x) for x in MUTANTS] + [("controls",) + tuple(x) for x in CONTROLS]:
    folder, m = m[0], m[1:]
    name, file, old, new = m[:4]
    edits = [(file, old, new)] + list(m[4:]) if len(m) > 4 and isinstance(m[4], tuple) else [(file, old, new)]
    out = []
    for f, o, n in edits:
        src = open(os.path.join(REPO, f)).read()
        if src.count(o) != 1:
            print(f"!! {name}: pattern occurs {src.count(o)} times in {f}"); ok = False; continue
        dst = src.replace(o, n)
        out += list(difflib.unified_diff(src.splitlines(True), dst.splitlines(True), "a/" + f, "b/" + f))
    if out:
        open(os.path.join(VERIF, folder, name + ".patch"), "w").write("".join(out))
import glob
keep = {m[0] for m in MUTANTS}
for f in glob.glob(os.path.join(VERIF, "mutants", "*.patch")):
    name = os.path.basename(f)[:-6]
    if name not in keep and "revert-fix" not in name:
        os.remove(f)
        print("removed stale", name)
print("generated", len(MUTANTS), "mutants", "OK" if ok else "WITH ERRORS")
sys.exit(0 if ok else 1)

import sys
pid = sys.argv[1]
sfx = sys.argv[2] if len(sys.argv) > 2 else ""
avoid = sys.argv[3] if len(sys.argv) > 3 else ""
prop = open(f"/tmp/prop_{pid}.txt").read()
wt = f"/tmp/wt_{pid}{sfx}"
print(f"""You are helping to evaluate a test/verification suite for the Python library `liesel` (a JAX-based probabilistic programming framework: `liesel.model` is a cached DAG model graph, `liesel.goose` is an MCMC engine with NUTS/HMC/IWLS/RW/MH/Gibbs kernels).

Your working copy is a git worktree at {wt} (work ONLY there; never touch /repo or /verif, and do not read anything under /verif). Use the interpreter /venv/bin/python and ALWAYS run with `PYTHONPATH={wt}` so that `import liesel` picks up your worktree (check `liesel.__file__`). There is no network.

Here is a semantic property that the library is supposed to satisfy:

{prop}

YOUR TASK: introduce ONE realistic bug into the library source under {wt}/liesel that BREAKS this property, such that
  (a) the library still imports and the existing test suite still passes: run at least the relevant test files, and finally the whole pinned suite `cd {wt} && PYTHONPATH={wt} /venv/bin/python -m pytest -q -p no:cacheprovider --timeout=900 -x` (takes about 3-4 minutes; 373 tests pass, some are skipped), and
  (b) the bug needs something SPECIFIC to manifest — a particular interleaving or sequence of operations, an unusual but legal input or configuration, a rare value, a particular schedule, or two cooperating code sites that each look fine alone. Do NOT make a change that ordinary use would expose at once (e.g. every sampling run crashing or every result being wrong). Think of the kind of regression a plausible refactoring or "optimisation" by a maintainer could introduce.

Deliverables, all inside {wt}:
  1. `{wt}/seeded_patch.diff` — the output of `git -C {wt} diff -- liesel` (only library source changes; do not modify tests).
  2. `{wt}/seeded_demo.py` — a small self-contained program that uses only the public API of liesel, prints what it observes, and exits with status 1 when the bug is present and 0 on the original code. Verify both: run it with your change applied (must exit 1) and on the pristine code (must exit 0). To get the pristine code do NOT use `git stash` (the stash is shared with other worktrees of the same repository and other people are using it); instead run `git -C {wt} diff -- liesel > {wt}/my.patch; git -C {wt} checkout -- liesel; <run demo>; git -C {wt} apply {wt}/my.patch`.
  3. `{wt}/seeded_meta.txt` — 5-10 lines: which clause of the property the change breaks, what exactly is needed for it to manifest, which tests you ran and their result.

{("IMPORTANT: an earlier seeded change for this property already did the following, so pick a DIFFERENT clause of the property and a different mechanism: " + avoid) if avoid else ""}

Keep the patch small (a few lines). When you are done, reply with a short summary (the diff, what it needs to manifest, test results). Do not commit anything.""")

#!/bin/bash
# runs every thorough tier once, sequentially (used with `vp run`); prints one summary block per check
# usage: tools/run_thorough_all.sh [Cxx ...]   (default: all claimed checks)
LIST=${@:-C01 C02 C14 C15 C17 C03 C16 C20 C05 C11 C07 C08 C10 C19 C06 C12 C09 C13 C04}
for c in $LIST; do
  echo "=== $c $(date +%H:%M:%S)"
  VERIF_SEED=${VERIF_SEED:-11} ./check $c --tier thorough --no-evidence 2>&1 | grep -E "^violated|^VIOLATION|^done|HARNESS|KNOWN|further" | cut -c1-400
done
echo "=== finished $(date +%H:%M:%S)"

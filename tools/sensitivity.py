#!/venv/bin/python
"""Sensitivity self-test: every mutants/<Cxx>-*.patch (and seeded/<id>/patch.diff) must make the
property's quick check exit 1; results -> evidence/sensitivity.json.

usage: tools/sensitivity.py [Cxx ...] [--only name-substring] [--runs N] [--seeded]
Each mutant is applied to a scratch copy of /repo/liesel under $TMPDIR (removed right after).
"""
import json, os, shutil, subprocess, sys, tempfile, time, glob

VERIF = os.path.dirname(os.path.dirname(os.path.abspath(__file__)))
REPO = os.environ.get("LIESEL_SRC", "/repo")


def run_one(prop, patch, runs=None, tier="quick"):
    tmp = tempfile.mkdtemp(prefix="lslmut_")
    try:
        shutil.copytree(os.path.join(REPO, "liesel"), os.path.join(tmp, "liesel"), ignore=shutil.ignore_patterns("__pycache__"))
        r = subprocess.run(["patch", "-p1", "-s", "-d", tmp, "-i", patch], capture_output=True, text=True)
        if r.returncode != 0:
            return {"status": "patch-failed", "out": r.stdout[-500:] + r.stderr[-500:]}
        cmd = [os.path.join(VERIF, "check"), prop, "--tier", tier, "--no-evidence"]
        if runs:
            cmd += ["--runs", str(runs)]
        env = dict(os.environ, LIESEL_SRC=tmp)
        t0 = time.time()
        r = subprocess.run(cmd, capture_output=True, text=True, env=env, cwd=VERIF)
        lines = [l for l in r.stdout.splitlines() if l.startswith(("violated", "VIOLATION", "HARNESS", "done"))]
        return {"status": {0: "MISSED", 1: "caught", 2: "harness-error"}.get(r.returncode, f"exit{r.returncode}"),
                "wall_s": round(time.time() - t0, 1), "lines": lines[:6] if r.returncode != 2 else r.stdout[-1500:].splitlines()}
    finally:
        shutil.rmtree(tmp, ignore_errors=True)


def main():
    args = sys.argv[1:]
    runs = None; only = None; seeded = False
    props = []
    i = 0
    while i < len(args):
        if args[i] == "--runs": runs = int(args[i + 1]); i += 2
        elif args[i] == "--only": only = args[i + 1]; i += 2
        elif args[i] == "--seeded": seeded = True; i += 1
        else: props.append(args[i]); i += 1
    items = []
    for p in sorted(glob.glob(os.path.join(VERIF, "mutants", "*.patch"))):
        name = os.path.basename(p)[:-6]
        items.append((name.split("-")[0], name, p))
    for p in sorted(glob.glob(os.path.join(VERIF, "controls", "*.patch"))):
        name = os.path.basename(p)[:-6]
        items.append((name.split("-")[0], "control/" + name, p))
    if seeded:
        for d in sorted(glob.glob(os.path.join(VERIF, "seeded", "*"))):
            mp = os.path.join(d, "meta.json")
            if os.path.exists(mp):
                m = json.load(open(mp))
                items.append((m["property"], "seeded/" + os.path.basename(d), os.path.join(d, "patch.diff")))
    out_path = os.path.join(VERIF, "evidence", "sensitivity.json")
    results = json.load(open(out_path)) if os.path.exists(out_path) else {}
    bad = 0
    todo = [(prop, name, patch) for prop, name, patch in items if (not props or prop in props) and (not only or only in name)]
    import concurrent.futures as cf
    jobs = int(os.environ.get("SENS_JOBS", "1"))
    if jobs > 1:
        os.environ["VERIF_WORKERS"] = str(max(2, 16 // jobs))
    with cf.ThreadPoolExecutor(max_workers=jobs) as ex:
        futs = {ex.submit(run_one, prop, patch, runs): (prop, name, patch) for prop, name, patch in todo}
        done_iter = cf.as_completed(futs)
        ordered = [(futs[f], f.result()) for f in done_iter]
    for (prop, name, patch), res in ordered:
        results[name] = dict(res, property=prop)
        print(f"{name:50s} {res['status']:14s} {res.get('wall_s','')}", flush=True)
        expected = "MISSED" if name.startswith("control/") else "caught"
        if name.startswith("control/"):
            res["expected"] = "no alarm (semantics-preserving change)"
            results[name] = dict(res, property=prop)
        if res["status"] != expected:
            bad += 1
            for l in res.get("lines", [])[-8:]: print("    ", l)
        json.dump(results, open(out_path, "w"), indent=1, sort_keys=True)
    return 1 if bad else 0


if __name__ == "__main__":
    sys.exit(main())

"""./check selftest-determinism [Cxx ...] [--runs N]

Every (seed, run_index) is executed twice — in fresh interpreters, with different worker counts
and different PYTHONHASHSEED values — and the event-log digests are diffed.  One integer must
decide everything; a mismatch is a harness defect (exit 2)."""

from __future__ import annotations

import json
import os
import subprocess
import sys
import tempfile
import time

VERIF = os.path.dirname(os.path.dirname(os.path.abspath(__file__)))
RUNS = {"M": 120, "I": 48, "O": 24, "E": 16, "S": 6}


def determinism(argv) -> int:
    from simkit.meta import META

    props = [a for a in argv if a.startswith("C")]
    runs_override = None
    if "--runs" in argv:
        runs_override = int(argv[argv.index("--runs") + 1])
    props = props or sorted(META)
    out = {}
    bad = 0
    for prop in props:
        n = runs_override or RUNS[META[prop]["world"]]
        digs = []
        t0 = time.time()
        for workers, hashseed, seed in ((16, "0", 7), (5, "12345", 7)):
            with tempfile.NamedTemporaryFile(suffix=".json", delete=False) as fh:
                path = fh.name
            # the second batch also drops jax's compilation caches after *every* run
            # (worker._bound_memory), the first one practically never: cache contents must not matter
            env = dict(os.environ, PYTHONHASHSEED=hashseed, VERIF_SEED=str(seed), VERIF_BUDGET_S="3000",
                       VERIF_RSS_GROWTH_MB="512" if workers == 16 else "0")
            r = subprocess.run([sys.executable, "-W", "ignore", os.path.join(VERIF, "simkit", "cli.py"), prop, "--runs", str(n), "--workers", str(workers),
                                "--no-evidence", "--dump-digests", path], capture_output=True, text=True, env=env, cwd=VERIF)
            if r.returncode == 2:
                print(f"{prop}: HARNESS-ERROR in determinism run\n{r.stdout[-1500:]}")
                bad += 1
                digs.append(None)
                continue
            with open(path) as f:
                digs.append(json.load(f))
            os.unlink(path)
        if None in digs:
            continue
        diff = [i for i in digs[0] if digs[0][i] != digs[1].get(i)]
        missing = set(digs[0]) ^ set(digs[1])
        status = "identical" if not diff and not missing else f"DIFFERENT at run indices {diff[:10]} missing {sorted(missing)[:5]}"
        print(f"{prop}: {len(digs[0])} runs x 2 (16 workers/PYTHONHASHSEED=0 vs 5 workers/PYTHONHASHSEED=12345): {status}  [{time.time() - t0:.0f}s]", flush=True)
        out[prop] = {"runs": len(digs[0]), "status": status, "seed": 7}
        if diff or missing:
            bad += 1
    os.makedirs(os.path.join(VERIF, "evidence"), exist_ok=True)
    p = os.path.join(VERIF, "evidence", "determinism.json")
    old = json.load(open(p)) if os.path.exists(p) else {}
    old.update(out)
    json.dump(old, open(p, "w"), indent=1, sort_keys=True)
    return 2 if bad else 0

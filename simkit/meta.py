"""Static per-property metadata (no jax import): run counts, budgets, evidence texts."""

E_REAL = [
    "liesel.goose.Engine / EngineBuilder / EpochManager / EpochChainManager / ListEpochChain",
    "liesel.goose.KernelSequence, TransitionMixin/TuningMixin dispatch, DictInterface, SamplingResults",
    "jax.jit / vmap / lax.scan as used by the engine",
]
E_STUB = [
    "ProbeKernel / MixinProbeKernel / ProbeQG (verif-owned, public Kernel protocol only)",
    "constant log-probability model state dict",
]
NOT_APPLICABLE_FAULTS = [
    "message loss/duplication/reordering, partitions (no network)",
    "crash/restart with durable state, torn/short/lost writes, disk full (no durability contract in any listed property)",
    "clock skew/jumps, timers (no wall-clock reads in property-relevant paths)",
    "thread/task interleavings (single-threaded library; logical-task op interleavings are used instead)",
]


def _m(world, level, runs, budget, rule, simtime_unit, distinct, real, stub, assumptions, **kw):
    d = dict(
        world=world,
        level=level,
        runs={"quick": runs[0], "thorough": runs[1]},
        budget_s={"quick": budget[0], "thorough": budget[1]},
        rule=rule,
        simtime_unit=simtime_unit,
        distinct_measure=distinct,
        components={"real": real, "stub": stub},
        assumptions=assumptions,
        faults_not_applicable=NOT_APPLICABLE_FAULTS,
        run_cap_s=900,
        shrink_tests=30,
        shrink_s=75,
    )
    d.update(kw)
    return d


META = {
    "C07": _m(
        "E", "exploration", (64, 1500), (420, 5400),
        "Each run = one plan drawn from plan_rng(property, VERIF_SEED, run_index): chains 1-4, 1-4 probe kernels "
        "(plain / mixin, history-needing or not), a valid epoch schedule of 1-6 epochs, a JIT chunk size dividing all "
        "durations, and an API script interleaving append_epoch / sample_next_epoch / sample_all_epochs / get_results. "
        "Non-trivial = at least one transition was executed; distinct = distinct (RefEngine call-trace hash of chain 0, "
        "chunk size, script shape).",
        "kernel transitions x chains (MCMC iterations)",
        "distinct RefEngine lifecycle traces x chunk size x API-script shape",
        E_REAL, E_STUB,
        [
            "RefEngine (simkit/engine_world.py) is a faithful reading of the documented lifecycle; global time = 1 + sum of earlier durations + time_in_epoch",
            "the final end_epoch/tune call of the last epoch is only observable through tuning infos (public API only; no private engine fields are read)",
            "sampled, not exhaustive: schedules <= 6 epochs, durations <= 24, chains <= 4",
        ],
    ),
    "C08": _m(
        "E", "exploration", (64, 1500), (420, 5400),
        "Each run = one plan: chains 1-4, 1-3 probe kernels writing unique attributable values f(chain, global time, kernel, "
        "element) into scalar/vector/matrix keys of int32/float32 dtype, a valid schedule with thinning on warm-up and posterior "
        "epochs, a chunk size dividing all durations (plus a second chunk size for the chunk-independence twin), tracked-key "
        "selections (included/excluded), 0-2 quantity generators, kernel-state storage on/off, an API script. Non-trivial = at "
        "least one transition; distinct = distinct (epoch list, chunk, tracked keys, script shape).",
        "kernel transitions x chains (MCMC iterations)",
        "distinct (schedule incl. thinning, chunk size, tracked-key set, API-script shape) tuples",
        E_REAL, E_STUB,
        [
            "attribution by uniqueness: each stored value decodes to the (chain, time, kernel) that wrote it",
            "warm-up thinning that does not divide the duration keeps iterations k, 2k, ... (floor(duration/k) samples), as the statement says",
            "sampled, not exhaustive",
        ],
    ),
    "C10": _m(
        "E", "exploration", (48, 1500), (480, 5400),
        "Each run = one plan of two kinds. probe: world-E plan (1-6 chains, 1-4 key-recording probe kernels, schedule, chunk, "
        "API script, 0-2 quantity generators, engine / EngineBuilder / EngineBuilder with per-chain states) executed twice with "
        "fresh objects. rw: real RWKernel(s) on a Gaussian dict model through EngineBuilder with replicated or per-chain initial "
        "states, jitter (none / deterministic shift / key-using bounded noise), int seed vs PRNGKey twin, and a twin in which one "
        "chain's start is perturbed. Every 6th run is additionally repeated in a fresh interpreter process under another PYTHONHASHSEED and "
        "the event-log digests are compared. Non-trivial = at least one transition executed; distinct = distinct configuration tuple.",
        "kernel transitions x chains (MCMC iterations)",
        "distinct (chains, chunk, construction path, kernels, schedule, script, jitter, perturbation) tuples",
        E_REAL + ["liesel.goose.RWKernel, mh_step (rw sub-batch)"], E_STUB + ["Gaussian dict log-density (rw sub-batch)"],
        [
            "key distinctness is checked over all keys observable through the public results (transition keys, lifecycle-call keys up to the last transition, init keys, quantity-generator keys)",
            "cross-process / PYTHONHASHSEED reproducibility is covered by ./check selftest-determinism whose digests include these results",
            "64-bit key collisions among <= 1e5 honest keys have probability < 1e-9 and are ignored",
        ],
    ),
    "C19": _m(
        "E", "fault_enumeration", (48, 1400), (480, 5400),
        "Each run = one plan: 1-6 chains, schedule with 0-3 warm-up and 1-2 posterior epochs (thinning on both), chunk, API script, "
        "and a fault schedule. F3 sub-batches enumerate the pattern classes {none, warmup_only, posterior_only, dense, single_chain, "
        "all_chains_one_time, sparse}: a table code[kernel][chain][global time] over the probe kernels' error books is injected "
        "through 1-3 probe kernels; the F2 sub-batch runs two real RWKernels on a density with NaN regions (code 90). The error "
        "log, Summary.error_summary, error_df(per_chain=True/False), sample_info, ArviZ conversion and pickle round trip are "
        "compared with the injected table. Non-trivial = at least one fault fired (or the pattern is 'none'); distinct = distinct "
        "(chains, pattern, kernels, schedule, chunk, fault totals).",
        "kernel transitions x chains (MCMC iterations)",
        "distinct (chains, fault pattern class, kernel count, schedule, chunk, total/posterior fault counts) tuples",
        E_REAL + ["liesel.goose.Summary / error_df, liesel.experimental.arviz.to_arviz_inference_data, pkl_save/pkl_load, RWKernel + mh_step (F2)"],
        E_STUB + ["fault table read by the probe kernels (F3)", "NaN-region dict log-density (F2)"],
        [
            "warmup_size_per_chain may be the number of warm-up iterations or of stored warm-up samples (the statement does not say which under warm-up thinning)",
            "relative frequencies of error_df are not checked (denominator under thinning is not fixed by the statement)",
            "pickle files are written to a per-run scratch directory under $TMPDIR and removed; no torn/short-write faults (no property depends on them)",
        ],
    ),
    "C16": _m(
        "E", "exploration", (160, 4000), (420, 5400),
        "Each run = a bundle: 20 op histories on a real EpochManager (append of valid and invalid configs with types 0-4, "
        "durations -1..30, thinning 0..36, interleaved with has_more()/next(), 0-2 configs handed to the constructor), 60 argument "
        "tuples for stan_epochs (warm-up 1-5000, init/term/base 1-400, posterior 1-3000, thinnings), and every 4th run one schedule - "
        "alternately from EngineBuilder.set_duration and a generated valid schedule given to set_epochs (common divisor 1-10, 60% with a "
        "one-iteration epoch besides the initial one) - sampled end-to-end with a probe kernel (builder chunk). Non-trivial = at least one op "
        "or tuple; distinct = distinct bundle prefix.",
        "manager operations + stan_epochs evaluations",
        "distinct bundles (hash of the first histories / tuples); reach probes count each rejection reason",
        ["liesel.goose.epoch.EpochManager / EpochConfig / EpochState", "liesel.goose.warmup.stan_epochs", "EngineBuilder.set_duration + Engine (builder-chunk sub-batch)"],
        ["ProbeKernel (builder-chunk sub-batch)"],
        [
            "the stan_epochs clause is a pure function of its arguments: it is seeded generation with an oracle, no schedule or fault is involved (DESIGN.md section 4 C16)",
            "'exhaustively over small domains' (the property's quantifier) is model checking and is not done; histories are sampled",
            "admissible = positive durations, warm-up >= 20 and >= init+term+base, thinning_warmup <= min(init, term, base), thinning_posterior | posterior",
            "last slow window >= twice its predecessor is read as part of the documented doubling pattern (Stan reference manual: the last window is extended)",
        ],
    ),
    "C01": _m(
        "M", "exploration", (1200, 40000), (420, 5400),
        "Each run = one generated model program (4-22 items: bare Value nodes, strong vars with/without Dist or TransientDist "
        "over 9 families, cached / transient Calc nodes incl. pytree-returning ones, TransientIdentity, InputGroup, weak vars, bare "
        "Dist nodes with manual `at`, seeded nodes; scalars and vectors; per_obs on/off) and an op history of 10-60 ops produced by "
        "2-4 interleaved logical tasks (single writer, optimiser-style batch writer toggling auto-update, targeted reader, "
        "snapshotter restoring earlier incl. dirty states, full updater, fault armer, seeder). Odd run indices are the F1 sub-batch "
        "(node functions armed to raise inside sweeps). Non-trivial = at least one assignment executed and, in the F1 sub-batch, at "
        "least one fault fired; distinct = distinct (graph-shape hash, set of abstract states reached).",
        "public mutating operations applied",
        "distinct (graph-shape hash, set of (auto-update flag, multiset of outdated node kinds, snapshot depth)) pairs; op trigrams counted",
        ["liesel.model: Value/Calc/TransientCalc/TransientIdentity/InputGroup/Dist/TransientDist/Var/VarValue, GraphBuilder.build_model, Model.update/state/auto_update/set_seed", "tensorflow_probability distributions"],
        ["node functions: bounded jnp primitives wrapped in call counters with an armable F1 trigger", "distribution constructors wrapped in call counters"],
        [
            "bit-exact comparison is legitimate because RefGraph calls the same jnp/tfp functions eagerly on the same inputs",
            "'ancestor' is the node-level relation re-derived from the plan (a var's dist parameters are ancestors of its dist node, not of its value node)",
            "F1 relaxation: the failing op must raise; nodes may stay outdated; every node that reports up to date must still be exact; the assigned input may hold the old or the new value",
            "nodes outside a targeted update's ancestor closure are not required to stay outdated",
            "_model_* totals and hidden constant nodes are recomputed from scratch through their own function on reference inputs",
        ],
        run_cap_s=900, shrink_tests=500, shrink_s=60,
    ),
    "C17": _m(
        "M", "exploration", (600, 12000), (420, 5400),
        "Each run = one hierarchical model program (world-M generator with distributions on most vars, plus 1-3 'tight links': "
        "child ~ Normal(g(parent), 1e-3) with g through cached / transient Calc nodes, weak vars, InputGroups fed by the parent's Var or by its "
        "value node, possibly chained; a quarter of the children are LogNormal variables transformed with the default bijector, whose new "
        "distribution node receives loc through builder-made InputGroups), a few "
        "assignments before the call (followed by update()), in half of the runs 1-3 'pending' assignments made after the auto-update setting "
        "is in place and right before simulate() - often to variables that are then skipped -, a skip set naming vars / dist nodes / value "
        "proxies, a seed and an auto-update setting. "
        "The model is simulated three times from identical starts: with the planned auto-update setting, with the opposite one, "
        "and again with the planned one. Non-trivial = at least one variable drawn; distinct = distinct (program shape, skip set, setting).",
        "variables drawn (3 simulations per run)",
        "distinct (program shape incl. families and node modes, skip set, auto-update setting) tuples",
        ["liesel.model.Model.simulate / update / auto_update, GraphBuilder, node classes", "tfp distributions (sampling)"],
        ["node functions: bounded jnp primitives (call-counted)"],
        [
            "the model is brought up to date before simulate() in every twin, so the only staleness is the one simulate creates itself",
            "ancestral clause is decided only for the generated tight links (|draw - loc at new ancestors| <= 8e-3 + float32 slack; a correct draw violates it with probability < 2e-15)",
            "PRNG-key-to-distribution assignment is liesel-internal, so draws are compared between twins, not against an independent sampler",
        ],
        run_cap_s=900, shrink_tests=300, shrink_s=60,
    ),
    "C15": _m(
        "M", "exploration", (500, 60000), (420, 5400),
        "Each run = one generated model program (world-M generator plus unnamed nodes/vars, groups, seeded nodes, shared inputs), "
        "built with copy on/off, followed by a history of 4-14 ops: assignments, auto-update toggles, updates, set_seed, round trips "
        "(pop + rebuild, copy_nodes_and_vars + rebuild, deepcopy, save/load through BytesIO and through a scratch file), F6 "
        "mutate-attempts (every guarded mutator of Node, Calc, Dist, Var incl. transform, and a variable outside the model taking a Dist of the "
        "model) and invalid constructions (duplicate node / "
        "var / group names - hand-written and generated: the run's own program plus a free or var-owned node re-using one of its node "
        "names -, reserved name, cycles via set_inputs and via Dist.at). Non-trivial = at least one round trip or mutate "
        "attempt; distinct = distinct (program shape, op-kind sequence).",
        "build / pop / copy / save / load / mutate-attempt / assignment operations",
        "distinct (program shape incl. unnamed/seeded flags, op-kind sequence) tuples",
        ["liesel.model: GraphBuilder.build_model, Model.__init__/pop_nodes_and_vars/copy_nodes_and_vars/__deepcopy__/state/set_seed, save_model/load_model (dill), no_model_setter/no_model_method guards, Group"],
        ["node functions (call-counted primitives)", "BytesIO / per-run scratch directory as the disk"],
        [
            "'identical state' = same node names, bit-identical values and outdated flags; for pop / copy_nodes_and_vars the model is updated first (a rebuild recomputes everything)",
            "'identical behaviour' = after the same subsequent assignment both models have bit-identical states; 'independent' = an assignment to one leaves the other's state unchanged",
            "any exception counts as rejection of an invalid graph / a mutate attempt; the structural digest (inputs, names, flags, functions, dist, at, groups) must be unchanged",
            "no torn/short-write faults on the dill file: no property states a durability contract",
        ],
        run_cap_s=900, shrink_tests=300, shrink_s=60,
    ),
    "C02": _m(
        "M", "exploration", (800, 40000), (420, 5400),
        "Each run = one generated model program (world-M generator with distributions on most vars over 9 families, observed / "
        "parameter / unflagged vars, bare Dist nodes, weak intermediates (with their own distributions and observed / parameter flags), "
        "transformed vars through every entry point, per_obs on/off, "
        "optionally user-supplied log_lik / log_prior / log_prob nodes) and a value history of 4-25 ops (assignments incl. to "
        "transformed vars, partial updates, restores); whenever the model is fully up to date the three totals and every Var.log_prob "
        "are compared with float64 closed forms; a twin with all per_obs flags flipped must give the same totals. Non-trivial = at "
        "least one density check on a model with a distribution; distinct = distinct program signature.",
        "operations applied (value histories)",
        "distinct (node kinds, families, roles, transform entry points, per_obs flags, user totals) signatures",
        ["liesel.model: GraphBuilder._add_model_log_*_node, _reduced_sum, Dist.update, Var.log_prob, Var.transform / auto_transform / GraphBuilder.transform", "tfp distributions and bijectors"],
        ["node functions (bounded primitives)"],
        [
            "this property has no schedule, clock or fault in it; it is decided inside the simulator as a step invariant with an independent oracle (seeded generation + oracle, nothing more; DESIGN.md section 4 C02)",
            "tolerance |diff| <= 1e-4 * (1 + sum |terms|): float32 accumulation vs float64 reference; generated values keep every term O(10)",
            "every 8th run is a DistRegBuilder model (Normal response, loc / scale predictors, p- and np-smooths with full- and deficient-rank penalties): totals compared with a float64 reference incl. the degenerate-normal prior on the range space of the penalty",
        ],
        run_cap_s=900, shrink_tests=300, shrink_s=60,
    ),
    "C14": _m(
        "M", "exploration", (600, 40000), (420, 5400),
        "Each run = one generated model program with at least one transformed variable: (distribution, bijector) pairs from "
        "{Gamma, Exponential, Beta, LogNormal, HalfNormal, InverseGamma, Normal} x {Exp, Softplus, Sigmoid instances; Scale, "
        "Softplus(hinge_softness), Shift classes with constant or model-dependent arguments; the distribution's default}, applied via "
        "Var.transform(instance), Var.transform(Class, **args), Var.transform(None), auto_transform at build, and the deprecated "
        "GraphBuilder.transform (instance / class / default); distribution parameters constant or other variables; initial values float32 "
        "arrays or, for unreferenced variables under an Exp bijector, plain Python ints; then a value history "
        "of 4-20 ops assigning the new variable and its parents. Non-trivial = at least one density check; distinct = distinct tuple of "
        "(family, entry point, bijector, role, per_obs) over the transformed variables.",
        "operations applied (build-op post-conditions + value histories)",
        "distinct tuples of (family, entry point, bijector, role, per_obs) over the transformed variables of a program",
        ["liesel.model: Var.transform, _transform_var_with_bijector_instance/_class, auto_transform in build_model, deprecated GraphBuilder.transform/_transform_back", "tfp bijectors / TransformedDistribution"],
        ["node functions (bounded primitives)"],
        [
            "no schedule, clock or fault belongs to this property; it is decided inside the simulator because transform is a build operation of the graph the simulator constructs and the identity must keep holding along value histories (DESIGN.md section 4 C14)",
            "b and log|b'| are float64 closed forms written in /verif for explicit bijectors; for 'the default' they come from TFP itself (numpy substrate)",
            "original value 'unchanged' up to the float32 round trip b(b^-1(x)) (rtol 2e-5)",
        ],
        run_cap_s=900, shrink_tests=300, shrink_s=60,
    ),
    "C03": _m(
        "I", "exploration", (240, 10000), (420, 5400),
        "Each run = one generated model program (4-12 items incl. transformed and weak vars, optionally a bare Value node that shares "
        "its name with a variable), ONE shared LieselInterface (10%: the deprecated lsl.GooseModel) and a history of 12-40 calls issued by "
        "logical clients: update_state(pos, state) eagerly / under jit / under vmap (batch 2-3) / jit(vmap), extract_position, log_prob "
        "(eager/jit), exact repetitions of earlier calls, assignments by the user to the original model between calls, and (every third "
        "run) F1 faults armed to fire inside an eager update_state. Input states come from a pool (the user's model.state and every state "
        "returned so far). Every sixth run drives DictInterface / DataclassInterface / NamedTupleInterface with trivial references. "
        "Non-trivial = at least one interface call; distinct = distinct (program shape, call-kind/mode sequence).",
        "interface calls",
        "distinct (program shape, sequence of call kinds and modes) tuples",
        ["liesel.goose.LieselInterface / DictInterface / DataclassInterface / NamedTupleInterface, liesel.model.GooseModel, Model._copy_computational_model, jax.jit / jax.vmap"],
        ["node functions (call-counted primitives with a shared F1 trigger)"],
        [
            "reference = private deepcopy of the user's model: state := input state, auto-update off, assign each key, full update; bit-exact eagerly (5e-6 with transformed vars because of TFP's identity-keyed bijector cache), rtol/atol 5e-6 across jit/vmap (XLA fusion)",
            "input states are always up to date (documented precondition of update_state)",
            "F1 is injected into eager calls only; after a failed call the next calls must satisfy all laws unchanged",
        ],
        run_cap_s=900, shrink_tests=60, shrink_s=90,
    ),
    "C20": _m(
        "O", "exploration", (96, 4000), (420, 5400),
        "Each run = 6 Stopper configurations (patience 1-12, max_iter <= 40, atol/rtol from {0, small, large}) x 8 loss histories (small "
        "alphabets, random walks, descents, plateaus) evaluated at every iteration index eagerly / under jit / under vmap; every 4th run "
        "additionally one optim_flat run on the identity-design model (theta without prior, X = I observed, y_i ~ N((X theta)_i, 1), plain "
        "SGD, batch size not dividing n): the recorded position history *is* the batch-membership history; every other 4th run one "
        "optim_flat run on a small regression (adam/sgd, with/without validation model, batching, restore/prune on/off). Non-trivial = at "
        "least one stopper decision; distinct = distinct configuration tuple.",
        "stopper decisions + optimiser iterations",
        "distinct (stopper configurations, optim_flat run configuration) tuples",
        ["liesel.goose.optim.Stopper, optim_flat, LieselInterface, optax"],
        [],
        [
            "RefStopper evaluates the documented pseudo-code in float32 (the implementation's dtype) so borderline comparisons agree bit for bit",
            "for i <= patience either answer of stop_early is accepted as long as True implies a full window on which the documented condition holds",
            "'exhaustively over small alphabets' (the property's quantifier) is model checking and is not done; histories are sampled",
            "batch coverage: P(false alarm) <= n (r/n)^T < 1e-12 for the generated (n, batch, T); batch_seed is always passed; stderr (tqdm) is discarded",
        ],
        run_cap_s=900, shrink_tests=40, shrink_s=120,
    ),
    "C05": _m(
        "E", "fault_enumeration", (64, 5000), (420, 5400),
        "Each run = 160 direct calls of liesel.goose.mh.mh_step (jit+vmap, 6 of them also eagerly) on a dict model whose log-density is a "
        "stored field, so current / proposed log-densities and the log-correction are injected exactly from {finite grid, tiny, huge, "
        "+inf, -inf, NaN}, with keys from {random, F4: uniform draw exactly 0.0, draw just below 1}; every second run additionally 5 direct "
        "transitions of RWKernel / MHKernel (zero or declared correction) at a point where every proposal has zero / NaN density, under F4 "
        "keys one split deeper; every fourth run an Engine run of RW / MH (random-walk and independence proposals) / IWLS on a density with "
        "-inf and NaN regions. Fault classes enumerated: undefined ratio, alpha=0, alpha=1, 0<alpha<1 x boundary draws. Non-trivial = "
        "at least one call; distinct = distinct run signature.",
        "mh_step calls + kernel transitions",
        "distinct (first cases, kernel config, engine config) signatures; fault-class counters in faults_injected",
        ["liesel.goose.mh.mh_step, RWKernel, MHKernel, IWLSKernel, DictInterface, Engine"],
        ["dict model with the log-density as a stored field / densities with -inf and NaN regions (F2)", "F4 keys found by a vectorised key search (simkit/f4_keys.json, verified at run time)"],
        [
            "the uniform draw of a key is jax.random.uniform(key) (the documented draw); RW/MH/IWLS kernels draw it from split(key)[1]",
            "for 0 < alpha < 1 the clause 'accepted only if the draw lies below alpha' is judged by the acceptance frequency over 2048 independent keys (Hoeffding bound, false-alarm probability <= 1e-12 per case): which uniform draw an implementation uses is not prescribed, so a pathwise comparison with jax.random.uniform(key) would flag the equivalent rule 1 - u <= alpha",
            "in engine runs 'accepted' is read off position_moved and cross-checked against the stored positions",
        ],
        run_cap_s=900, shrink_tests=40, shrink_s=120,
    ),
    "C12": _m(
        "E", "exploration", (48, 1000), (600, 5400),
        "Each run = one Engine run of an HMCKernel or NUTSKernel (diagonal or dense mass matrix) over 1-3 position keys (a single key mostly with one flat coordinate and a small scale) of different shapes "
        "(scalar, vector, matrix) whose scales differ by 10^2-10^6, listed in a random order (mostly non-alphabetical), optionally next to an "
        "RWKernel on a parameter of yet another scale, with 1-3 slow-adaptation epochs of 40-80 iterations (plus fast / burn-in / posterior "
        "epochs) and 1-3 chains; half of the runs are repeated with the keys listed in another order. Non-trivial = at least one tuned "
        "matrix compared; distinct = distinct configuration.",
        "kernel transitions x chains (MCMC iterations)",
        "distinct (kernel, diag/dense, key names/shapes/scales, listed order, schedule, co-existing kernel) tuples",
        ["liesel.goose.HMCKernel / NUTSKernel (_tune_slow), mm.tune_inv_mm_diag / tune_inv_mm_full, Engine (history hand-over), blackjax integrators"],
        ["independent-normal dict log-density"],
        [
            "the reference is the float64 (co)variance (ddof=1) of the epoch's recorded positions of the kernel's own keys + 1e-3 on the diagonal, in jax.flatten_util.ravel_pytree order (sorted keys), compared with the kernel state stored after the first transition of the next epoch (rtol 2e-3 plus the float32 cancellation error 1e-6 |m_i||m_j| of subtracting the mean)",
            "blackjax's integrator is trusted; only the alignment of the matrix with the flat coordinates is decided here",
        ],
        run_cap_s=900, shrink_tests=12, shrink_s=200,
    ),
    "C11": _m(
        "E", "exploration", (64, 4000), (600, 5400),
        "Each run = 12 direct da_init / da_step / da_finalize call histories (acceptance sequences of 3-40 values from uniform / low / "
        "high / constant / extreme families, initial step sizes 1e-3..10, targets, gamma, kappa, t0, 0-2 epoch restarts, eager or jitted, with a "
        "higher-acceptance twin from the same state at every step); every second run additionally one Engine run of RW / MH (tuning on or "
        "off) / IWLS / HMC / NUTS with store_kernel_states over a schedule of 2-5 epochs mixing fast / slow / burn-in / posterior, 1-3 chains; "
        "for the Metropolis-Hastings kernels half of the targets are undefined (NaN, fault F2) beyond a radius, so that some adaptation steps "
        "are fed the acceptance probability 0 reported with error code 90; half of the engine runs configure their own da_gamma / da_kappa / da_t0. "
        "Non-trivial = at least one dual-averaging step checked; distinct = distinct run signature.",
        "dual-averaging steps (direct) + kernel transitions (engine)",
        "distinct (direct histories, kernel, schedule, constants) signatures",
        ["liesel.goose.da (da_init, da_step, da_finalize), RWKernel, MHKernel, IWLSKernel, HMCKernel, NUTSKernel, TransitionMixin dispatch, Engine"],
        ["Gaussian dict log-density"],
        [
            "one-step oracle: the float64 Hoffman-Gelman recurrence is applied to the previous *stored* state and the recorded acceptance probability and compared with the next stored state (rtol/atol 2e-4 on log quantities), so float32 errors do not accumulate",
            "epoch restart: the stored mu = log(10 eps0) must match the averaged step size of the previous epoch (times sqrt(tr(old)/tr(new)) for HMC/NUTS after a slow epoch, the documented step-size rescaling of the mass-matrix tuner)",
            "the 1-ulp exp(log eps) round trip at epoch boundaries is not 'between transitions' and is not flagged",
        ],
        run_cap_s=900, shrink_tests=25, shrink_s=200,
    ),
    "C09": _m(
        "E", "exploration", (24, 600), (900, 5400),
        "Each run = one Engine run of a sequence of 2-5 real kernels (NUTS / HMC / IWLS / RW / MH with a user proposal / Gibbs) over the "
        "disjoint blocks {beta}, {log_sigma or the Exp-transformed sigma}, {z} of a regression model with derived quantities (weak vars "
        "mu = X beta and sigma, a cached Calc d = tanh(z) beta_0, the stored log-probability), as a Liesel graph model (2 of 3 runs) or a dict "
        "model, kernel order shuffled, optionally an order-sensitive deterministic Gibbs pair (x <- y + 1, y <- 2x) interleaved, z with a "
        "Uniform prior (zero-density region: F2) or a Normal prior, 1-3 chains, 20 iterations over a warm-up and a posterior epoch; an "
        "ObserverKernel sits before, between and after the kernels. After the engine run every MH-type / gradient kernel is driven by hand: "
        "own transition, other blocks moved, next transition with the carried-over and with a freshly initialised kernel state. "
        "Non-trivial = at least one observed state checked; distinct = distinct "
        "configuration.",
        "kernel transitions x chains",
        "distinct (model kind, kernel order, kernel types, scale parametrisation, prior of z, Gibbs pair, pair order) tuples",
        ["liesel.goose.KernelSequence, NUTSKernel, HMCKernel, IWLSKernel, RWKernel, MHKernel, GibbsKernel, mh_step, LieselInterface.update_state, DictInterface, Engine"],
        ["ObserverKernel (verif-owned, public Kernel protocol, no position keys)", "the regression model and its closed-form float64 reference"],
        [
            "derived quantities and the log-density are recomputed in float64 closed form from the observed parameter values (rtol 2e-5 / 2e-4 for the float32 log-density sum)",
            "hand-over is compared bit for bit; descendants of a block are taken from the model definition in the plan",
            "NUTS/HMC report position_moved = 99 (unknown), so the rejected => unchanged clause is checked for RW / MH / IWLS only",
        ],
        run_cap_s=900, shrink_tests=10, shrink_s=300,
    ),
    "C06": _m(
        "S", "exploration", (28, 1000), (900, 5400),
        "Each run = one Engine run of 128-1024 chains x 10-50 iterations of one kernel (cycling through RWKernel, IWLSKernel with the "
        "Hessian, IWLSKernel with a user-supplied information matrix, MHKernel with a symmetric / independence / multiplicative proposal and "
        "its declared correction) in a burn-in or posterior epoch (fixed step size 0.2-1.5) on a Gaussian / logistic / Poisson regression "
        "with a Normal prior, 1-3 coefficients as one key or split over two keys, as a dict model or a Liesel graph model; every *accepted* "
        "transition (proposal = state after) is compared with min(1, pi(x')q(x|x') / pi(x)q(x'|x)) from a float64 re-statement of pi and q "
        "(analytic gradient and negative Hessian); rejected transitions get the range check. Non-trivial = at least one accepted "
        "transition; distinct = distinct configuration.",
        "kernel transitions x chains",
        "distinct (kernel, family, dimension, key split, model kind, step size, tau, sigma, n) tuples",
        ["liesel.goose.IWLSKernel (forward/backward densities), iwls_utils.solve/mvn_log_prob/mvn_sample, RWKernel, MHKernel, mh_step, DictInterface / LieselInterface, Engine"],
        ["regression log-densities (float32 jnp for the kernels, float64 numpy reference)", "user proposal functions with declared corrections"],
        [
            "no fault dimension: seeded Monte-Carlo simulation of the real kernels, recorded transition histories checked algebraically",
            "tolerance |log a - log a_ref| <= 5e-3 + 2e-3 |log a_ref| or |a - a_ref| <= 5e-3 (float32 Cholesky / solves / autodiff Hessian)",
            "only burn-in / posterior epochs (fixed step size) are used",
        ],
        run_cap_s=900, shrink_tests=10, shrink_s=300,
    ),
    "C04": _m(
        "S", "exploration", (16, 400), (1200, 5400),
        "Each run = one exact-draw invariance experiment: per chain theta_0 ~ prior and y ~ p(y | theta_0) are drawn by the simulator's own "
        "numpy sampler, so (theta_0, y) is an exact joint draw and theta_0 an exact posterior draw given y; (theta_0, y) is put into the "
        "per-chain model state, k in {1, 3, 10, 25} transitions of the kernel (sequence) under test run in burn-in / posterior epochs "
        "(tuning fixed) in 8192-16384 independent chains, and the law of (theta_k, y) is compared with that of (theta_0, y). The 16 slots "
        "cycle through RW, MH (asymmetric and independence proposals with declared corrections), IWLS (Hessian and user information), HMC, "
        "NUTS, a hand-written conjugate Gibbs kernel, sequences of 2-3 kernels over disjoint blocks on Gaussian / logistic / Poisson "
        "regressions (dict and Liesel graph versions), and NUTS / HMC / IWLS+RW / RW+Gibbs on a Liesel location-scale model whose variance "
        "is sampled through an Exp-transformed variable. Non-trivial = transitions executed; distinct = distinct configuration.",
        "kernel transitions x chains",
        "distinct configurations (kernel slot, family, dimension, model kind, step size, k, schedule, seed)",
        ["all built-in kernels (NUTS, HMC, IWLS, RW, MH, Gibbs), mh_step, KernelSequence, ModelMixin.log_prob_fn, LieselInterface / DictInterface, Engine, blackjax"],
        ["model families (float32 densities for the kernels, numpy samplers and closed forms for the oracle)", "user proposal / Gibbs functions"],
        [
            "no fault dimension: seeded Monte-Carlo simulation of the real engine; the alarm thresholds come from Bernstein's inequality with worst-case variance under the null, false-alarm probability <= 1e-12 per statistic for every VERIF_SEED (not a p-value)",
            "known-law functionals: prior PIT (and exact posterior / conditional PIT for conjugate cases) through u, |u-1/2|, u^2, 10 bin indicators, products; joint functionals of (theta, y) are paired with the exact draw",
            "a kernel that never moves is invariance-preserving and passes here (write-back is C09's business); small biases below the thresholds pass",
            "DistReg / tau2 and finite-discrete Gibbs kernels are decided by C13, not here",
        ],
        run_cap_s=1200, shrink_tests=4, shrink_s=400,
    ),
    "C13": _m(
        "S", "exploration", (64, 1000), (900, 5400),
        "Each run = one Gibbs-kernel experiment. Even runs: a DistRegBuilder model (Normal response, loc/scale predictors, one np-smooth with a "
        "penalty from {identity, ridge + differences, first differences (rank d-1), second differences (rank d-2), partially unpenalised "
        "coefficients, a random low-rank A'A}, d = 2-6, hyperparameters "
        "a, b, coefficient values and current tau2 from wide ranges, optionally a second np-smooth) and liesel's tau2_gibbs_kernel. Odd runs: a "
        "model with a FiniteDiscrete (2-6 outcomes, in 40% one of them with prior probability exactly 0) or Bernoulli prior on c, a Normal / Poisson / no downstream likelihood through eta = mu + "
        "slope c, and finite_discrete_gibbs_kernel with outcomes given or extracted. Each run (1) checks that the analytic full conditional is "
        "proportional to the model's own joint density as a function of that variable over a grid, and (2) draws 1e5-4e5 values through "
        "kernel.transition over distinct keys and tests PIT / category frequencies against the analytic conditional. Non-trivial = draws made; "
        "distinct = distinct configuration.",
        "Gibbs draws",
        "distinct configurations (penalty kind/rank, hyperparameters, coefficients, outcome sets, priors, likelihoods)",
        ["liesel.model.distreg.DistRegBuilder / tau2_gibbs_kernel, liesel.model.goose.finite_discrete_gibbs_kernel, GibbsKernel.transition, LieselInterface, MultivariateNormalDegenerate.from_penalty"],
        ["generated data and hyperparameters"],
        [
            "no fault dimension: seeded Monte-Carlo simulation; Bernstein thresholds with false-alarm probability <= 1e-12 per statistic for every VERIF_SEED",
            "the analytic conditionals IG(a + rank/2, b + beta'K beta/2) and categorical proportional to exp(joint) are computed in float64 from the plan alone (rank by numpy.linalg.matrix_rank)",
            "proportionality tolerance 3e-3 (scaled) on the log scale absorbs float32 evaluation of the joint",
        ],
        run_cap_s=900, shrink_tests=6, shrink_s=200,
    ),
}


# ---------------------------------------------------------------------------- MANIFEST texts

PENDING = "check not built yet in this session (see DESIGN.md section 7 build order); no claim is made"
NOT_APPLICABLE = {}
NOT_APPLICABLE["C18"] = (
    "pure mathematical functions of their arguments (degenerate MVN, Gaussian copula, algebraic sigmoid): no schedule, "
    "clock, fault, history or interleaving for a simulator to drive; input generation against a closed form belongs to "
    "another technique family (DESIGN.md section 4, C18)"
)

MANIFEST_TEXT = {
    "C13": dict(
        technique="seeded Monte-Carlo simulation of liesel's Gibbs kernels: density-proportionality check against the model's own joint plus non-asymptotic (Bernstein) tests of 1e5+ draws (no fault dimension)",
        design_ref="DESIGN.md section 4 C13, section 3 world S",
        level_text="Seeded models (full- and deficient-rank penalties, hyperparameters, coefficient values, outcome sets, prior probabilities, downstream "
        "likelihoods); the analytic full conditional must be proportional to the model's joint density in that variable, and the kernel's draws "
        "over distinct keys must follow it (PIT / frequencies with rigorous Bernstein bounds). Sampling, not a proof.",
        level_note="Trusted: scipy.stats, numpy matrix_rank. Data and hyperparameters are generated; the kernels, DistRegBuilder, interface and degenerate MVN are real.",
    ),
    "C04": dict(
        technique="seeded Monte-Carlo simulation of the real engine with thousands of independent chains started at exact joint draws; non-asymptotic (Bernstein) invariance tests (no fault dimension)",
        design_ref="DESIGN.md section 4 C04, section 3 world S",
        level_text="Exact-draw design: chains start at exact posterior draws (theta_0 ~ prior, y ~ p(y | theta_0), per-chain data), run k transitions "
        "with fixed tuning, and bounded functionals of (theta_k, y) with exactly known expectation under invariance are tested with rigorous "
        "Bernstein thresholds (false-alarm probability <= 1e-12 per statistic). Detects distribution shifts above the thresholds only.",
        level_note="Trusted: numpy/scipy samplers and CDFs, blackjax. Model families and user proposal functions are stubs; every kernel, the kernel sequence, interfaces and engine are real.",
    ),
    "C06": dict(
        technique="seeded Monte-Carlo simulation of the real kernels through the Engine; per-transition algebraic check of the recorded accept histories against float64 proposal densities (no fault dimension)",
        design_ref="DESIGN.md section 4 C06, section 3 world S",
        level_text="Seeded runs over kernels, model families with analytic gradient/Hessian, block shapes, step sizes and starting points; for every "
        "accepted transition the reported acceptance probability must equal the Metropolis-Hastings ratio with the kernel's actual proposal "
        "density. Sampling, not a proof.",
        level_note="Trusted: numpy/scipy float64 linear algebra. Models and user proposals are stubs; kernels, iwls_utils, mh_step, engine are real.",
    ),
    "C09": dict(
        technique="deterministic simulation: seeded kernel sequences of real kernels with observer probes between them; recorded intermediate states vs closed-form recomputation and hand-over comparison",
        design_ref="DESIGN.md section 4 C09",
        level_text="Seeded search over kernel orders, kernel types per block, Liesel and dict models, acceptance outcomes (zero-density regions and "
        "step sizes giving both outcomes); the state every kernel receives and leaves is observed in-band and checked for order, blockwise "
        "isolation, rejection => unchanged, and coherence of all derived quantities incl. the stored log-probability. Sampling, not a proof.",
        level_note="Trusted: scipy closed forms, blackjax. ObserverKernel and the model family are stubs; kernels, kernel sequence, interfaces, engine are real.",
    ),
    "C11": dict(
        technique="deterministic simulation: seeded acceptance histories through da_init/da_step/da_finalize and seeded engine schedules of the real adapting kernels; stored kernel states vs a float64 dual-averaging model",
        design_ref="DESIGN.md section 4 C11",
        level_text="Seeded acceptance-probability histories (with epoch restarts and monotonicity twins) and seeded engine schedules for every "
        "step-size-adapting kernel; each stored per-iteration tuning state is compared with one step of the float64 Hoffman-Gelman recurrence, "
        "the per-epoch restart and final averaged step size are checked at epoch boundaries, and in burn-in / posterior epochs the tuning state "
        "must be bit-identical from one transition to the next. Sampling, not a proof.",
        level_note="Trusted: numpy float64 arithmetic, blackjax integrators. The density is a stub; da.py and the kernels are real.",
    ),
    "C12": dict(
        technique="deterministic simulation: seeded engine runs of real HMC/NUTS kernels over key orders/shapes/scales and schedules; stored kernel states vs a float64 reference (co)variance of the recorded history",
        design_ref="DESIGN.md section 4 C12, section 3 world E",
        level_text="Seeded search over position-key orders (incl. non-alphabetical), shapes, scales differing by orders of magnitude, diagonal/dense "
        "mode, numbers of slow-adaptation epochs and co-existing kernels; after every slow epoch the stored inverse mass matrix is compared "
        "entry by entry with the reference (co)variance in flat-coordinate order; permuted-key twins must agree. Sampling, not a proof.",
        level_note="Trusted: blackjax, numpy var/cov. The density is a stub; kernels, tuner, engine are real.",
    ),
    "C05": dict(
        technique="deterministic simulation with fault injection: injected non-finite densities/corrections and rare PRNG outcomes (uniform draw exactly 0) on mh_step, kernels and engine runs; accept/reject histories vs the exact rule",
        design_ref="DESIGN.md section 4 C05, section 1.2 F2/F4/F5",
        level_text="Fault kinds are enumerated (every class of non-finite input x boundary draws u == 0 and u just below 1), the rest sampled; each "
        "call is judged against min(1, exp(difference + correction)) computed in float64 from the injected numbers, returned states are "
        "compared bit for bit, engine runs on densities with zero/NaN regions are checked over the recorded transitions. Not a proof.",
        level_note="Trusted: jax.random.uniform(key) as the documented draw; float64 exp. The densities are stubs; mh_step and the kernels are real.",
    ),
    "C20": dict(
        technique="deterministic simulation: seeded loss histories through the real Stopper vs the documented rule; real optim_flat runs whose position history is the batch-membership history (batch PRNG seam)",
        design_ref="DESIGN.md section 4 C20, section 3 world O",
        level_text="Seeded loss histories x stopper settings at every iteration index (eager/jit/vmap) against the documented pseudo-code; real "
        "optim_flat runs checked against the recorded histories (stops where documented, restored optimum, lengths / NaN padding, model state "
        "consistent) and, on the identity-design model, batch membership per iteration read off the position history. Sampling, not a proof.",
        level_note="Trusted: optax, jax.lax.while_loop. No stubs: Stopper, optim_flat and the models are real.",
    ),
    "C03": dict(
        technique="deterministic simulation with fault injection: seeded call histories by several logical clients on one shared interface (eager/jit/vmap mix, raising node functions, user mutating the original) vs direct assignment on a private reference copy",
        design_ref="DESIGN.md section 4 C03, section 3 world I",
        level_text="Seeded search over model programs x call histories on ONE shared interface object; every update_state result is compared with "
        "direct assignment + full update on a private reference copy, repeated calls must return identical states (history independence), "
        "input states and the user's model are digested before/after every call (incl. calls that raised), get-after-put and log_prob laws, "
        "same laws for dict / dataclass / named-tuple interfaces. Sampling, not a proof.",
        level_note="Trusted: jax.jit/vmap semantics, deepcopy of the user's model as reference. Node functions are stubs; interfaces and the model are real.",
    ),
    "C14": dict(
        technique="build-op post-conditions and step invariant inside the world-M deterministic simulation: seeded (distribution, bijector, entry point) programs and value histories vs float64 change-of-variables closed forms (no fault/schedule dimension)",
        design_ref="DESIGN.md section 4 C14",
        level_text="Seeded generation over distribution/bijector pairs, every transformation entry point (incl. auto-transform and the deprecated "
        "builder method), constant and model-dependent arguments; post-conditions at transform time (value unchanged, image of the new "
        "variable, flags, no distribution left) and, after every op, new log-density = original log-density at b(t) + log|b'(t)| and the model "
        "totals against closed forms. Sampling, not a proof.",
        level_note="Trusted: scipy closed forms, TFP default bijectors. A pure function of (program, values); the simulator supplies programs and histories.",
    ),
    "C02": dict(
        technique="step invariant inside the world-M deterministic simulation: seeded programs and value histories vs independent float64 closed-form densities (no fault/schedule dimension)",
        design_ref="DESIGN.md section 4 C02",
        level_text="Seeded generation of model programs and value histories; after every operation that leaves the model up to date, "
        "log_prob / log_lik / log_prior / Var.log_prob are compared with scipy float64 closed forms knowing from the plan which variable "
        "is observed / parameter / transformed / bare; per_obs twins; user-supplied totals forwarded bit-identically. Sampling, not a proof.",
        level_note="Trusted: scipy.stats closed forms, TFP default bijectors (numpy substrate). The property is a pure function of (program, values); the simulator only supplies the variety of programs and histories.",
    ),
    "C15": dict(
        technique="deterministic simulation with fault injection: seeded build/pop/copy/save/load/mutate-attempt histories on generated graphs; rejected-operation faults; round-trip twins compared state-for-state",
        design_ref="DESIGN.md section 4 C15, section 3 world M",
        level_text="Seeded search over graph programs (groups, seeded nodes, unnamed nodes, shared inputs) x op histories mixing round trips, "
        "assignments, F6 mutate-attempts and invalid constructions; structural invariants (closure, outputs = inverse of inputs, unique "
        "names), frozen-ness (structure digest unchanged, exception raised), and round-trip twins (equal state, equal behaviour, "
        "independence) are checked at every step. Sampling, not a proof.",
        level_note="Trusted: dill/pickle, networkx. Node functions are stubs; all of liesel.model is real.",
    ),
    "C17": dict(
        technique="deterministic simulation: seeded model programs and pre-histories, differential twins over the auto-update setting, tight-link ancestral oracle",
        design_ref="DESIGN.md section 4 C17, section 3 world M",
        level_text="Seeded search over hierarchical programs (children depending on parents through cached/transient intermediates and weak "
        "vars), skip sets, seeds and both auto-update settings; twins must draw bit-identical values, tight-link children must sit at the "
        "value implied by the newly drawn parents, skipped vars stay untouched, shapes are preserved, and the model is coherent after "
        "update(). Sampling, not a proof.",
        level_note="Trusted: tfp samplers, jax PRNG. Node functions are stubs; Model.simulate and the graph are real.",
    ),
    "C01": dict(
        technique="deterministic simulation with fault injection: seeded interleavings of logical client tasks over the real model graph, raising node functions, snapshot/restore; step invariants vs a from-scratch reference evaluator",
        design_ref="DESIGN.md section 4 C01, section 3 world M",
        level_text="Seeded search over graph programs x op histories (interleaved logical tasks) with F1 faults (node functions raising "
        "mid-sweep); after every op every node that reports up to date is compared bit-exactly with a from-scratch evaluation, full and "
        "targeted updates are checked for completeness, call counters for at-most-once / only-if-stale. Sampling, not a proof.",
        level_note="Trusted: jnp/tfp primitives (same functions on both sides), the plan-derived ancestor relation. Node functions are stubs; "
        "all of liesel.model is real.",
    ),
    "C16": dict(
        technique="deterministic simulation: seeded append/next/has_more op histories with rejected-operation faults on the real EpochManager vs a reference validator; seeded stan_epochs argument sweep",
        design_ref="DESIGN.md section 4 C16",
        level_text="Seeded op histories (valid and invalid appends interleaved with next()/has_more(), as Engine.append_epoch between "
        "sampling calls allows) against a reference validator, with 'a rejected append leaves the manager unchanged' checked through "
        "all later behaviour; stan_epochs evaluated on thousands of argument tuples; builder chunk observed through successful "
        "sampling. Sampling, not exhaustive enumeration.",
        level_note="Trusted: the reference validator as reading of the statement. The stan_epochs clause has no fault/schedule dimension (said in DESIGN.md).",
    ),
    "C19": dict(
        technique="deterministic simulation with fault injection: scheduled error codes per (kernel, chain, iteration) and NaN densities, conservation over log -> summary -> data frame",
        design_ref="DESIGN.md section 4 C19, section 1.2 F3/F2",
        level_text="Fault pattern classes are enumerated (none, warm-up only, posterior only, dense, single chain, all chains at one "
        "time, sparse, NaN-density), schedules/chains/kernels sampled within; the injected table is the ground truth for every count "
        "the results and summaries report. Sampling within enumerated fault classes, not a proof.",
        level_note="Trusted: pandas/arviz/pickle; probe kernels and fault tables are stubs; SamplingResults, Summary, ArviZ conversion are real.",
    ),
    "C10": dict(
        technique="deterministic simulation: twin / perturbed-twin engine runs and in-band PRNG-key recording by probe kernels",
        design_ref="DESIGN.md section 4 C10, section 3 world E",
        level_text="Seeded search over chain counts, schedules, chunk sizes, construction paths (Engine, EngineBuilder with replicated "
        "and per-chain states), jitter functions; twin runs must be bit-identical, all recorded PRNG keys pairwise distinct, "
        "perturbing one chain must not change another, first samples must equal the jittered initial values. Sampling, not a proof.",
        level_note="Trusted: jax PRNG (threefry) as a PRF; probe kernels and the Gaussian dict model are stubs; builder, engine, "
        "kernel sequence, RWKernel are real.",
    ),
    "C08": dict(
        technique="deterministic simulation: attributable probe values through the real Engine/chains vs RefEngine storage model, chunk-size twins",
        design_ref="DESIGN.md section 4 C08, section 3 world E",
        level_text="Seeded search over thinning x chunking x schedule x tracked-key selections; every stored sample is attributed to "
        "the iteration that produced it and compared with a reference storage model; twin runs with another chunk size must be "
        "bit-identical. Sampling, not a proof.",
        level_note="Trusted: RefEngine storage model, jax. Probe kernels are stubs; engine, chains, builder, pytree utilities are real.",
    ),
    "C07": dict(
        technique="deterministic simulation: seeded schedules/API scripts of the real Engine with probe kernels vs RefEngine",
        design_ref="DESIGN.md section 4 C07, section 3 world E",
        level_text="Seeded search over epoch schedules, chunk sizes, chain/kernel counts and API-call interleavings; every kernel "
        "call is hashed in-band by probe kernels and compared, per chain and iteration, with an executable reference of the "
        "documented lifecycle. Sampling of a large schedule space, not a proof.",
        level_note="Trusted: RefEngine as reading of the documentation; jax. Probe kernels are stubs; the engine, epoch manager, "
        "chains, kernel sequence and mixin dispatch are real code from /repo's working tree.",
    ),
}

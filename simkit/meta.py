"""Static per-property metadata (no jax import): run counts, budgets, evidence texts."""

E_REAL = [
    "liesel.goose.Engine / EngineBuilder / EpochManager / EpochChainManager / ListEpochChain",
    "liesel.goose.KernelSequence, TransitionMixin/TuningMixin dispatch, DictInterface, SamplingResults",
    "jax.jit / vmap / lax.scan as used by the engine",
]
E_STUB = [
    "ProbeKernel / MixinProbeKernel / ProbeQG (verif-owned, public Kernel protocol only)",
    "constant log-probability model state dict",
]
NOT_APPLICABLE_FAULTS = [
    "message loss/duplication/reordering, partitions (no network)",
    "crash/restart with durable state, torn/short/lost writes, disk full (no durability contract in any listed property)",
    "clock skew/jumps, timers (no wall-clock reads in property-relevant paths)",
    "thread/task interleavings (single-threaded library; logical-task op interleavings are used instead)",
]


def _m(world, level, runs, budget, rule, simtime_unit, distinct, real, stub, assumptions, **kw):
    d = dict(
        world=world,
        level=level,
        runs={"quick": runs[0], "thorough": runs[1]},
        budget_s={"quick": budget[0], "thorough": budget[1]},
        rule=rule,
        simtime_unit=simtime_unit,
        distinct_measure=distinct,
        components={"real": real, "stub": stub},
        assumptions=assumptions,
        faults_not_applicable=NOT_APPLICABLE_FAULTS,
        run_cap_s=180,
        shrink_tests=40,
        shrink_s=150,
    )
    d.update(kw)
    return d


META = {
    "C07": _m(
        "E", "exploration", (64, 3000), (420, 3000),
        "Each run = one plan drawn from plan_rng(property, VERIF_SEED, run_index): chains 1-4, 1-4 probe kernels "
        "(plain / mixin, history-needing or not), a valid epoch schedule of 1-6 epochs, a JIT chunk size dividing all "
        "durations, and an API script interleaving append_epoch / sample_next_epoch / sample_all_epochs / get_results. "
        "Non-trivial = at least one transition was executed; distinct = distinct (RefEngine call-trace hash of chain 0, "
        "chunk size, script shape).",
        "kernel transitions x chains (MCMC iterations)",
        "distinct RefEngine lifecycle traces x chunk size x API-script shape",
        E_REAL, E_STUB,
        [
            "RefEngine (simkit/engine_world.py) is a faithful reading of the documented lifecycle; global time = 1 + sum of earlier durations + time_in_epoch",
            "the final end_epoch/tune call of the last epoch is only observable through tuning infos (public API only; no private engine fields are read)",
            "sampled, not exhaustive: schedules <= 6 epochs, durations <= 24, chains <= 4",
        ],
    ),
}

"""simkit core: plan PRNG, event log digests, violations, delta debugging.

Nothing in this module imports jax or liesel; the parent runner uses it too.

One integer decides everything: every choice of a run is drawn from
``plan_rng(property, VERIF_SEED, run_index)`` while the *plan* is generated.  Execution of a
plan draws nothing and reads no clock; logging only feeds a SHA-256.
"""

from __future__ import annotations

import hashlib
import json
import random
from typing import Any, Callable, Iterable

import numpy as np


# --------------------------------------------------------------------------------------
# PRNG


def plan_rng(prop: str, seed: int, run_index: int, salt: str = "") -> random.Random:
    h = hashlib.sha256(f"{prop}/{seed}/{run_index}/{salt}".encode()).digest()
    return random.Random(int.from_bytes(h[:16], "big"))


# --------------------------------------------------------------------------------------
# canonical data / digests


def to_plain(obj: Any) -> Any:
    """numpy / jax values -> plain JSON-able python (lists, ints, floats, str)."""
    if isinstance(obj, dict):
        return {str(k): to_plain(v) for k, v in obj.items()}
    if isinstance(obj, (list, tuple)):
        return [to_plain(v) for v in obj]
    if isinstance(obj, (str, bool, int, type(None))):
        return obj
    if isinstance(obj, float):
        return obj if np.isfinite(obj) else repr(obj)
    if isinstance(obj, (np.integer,)):
        return int(obj)
    if isinstance(obj, (np.floating,)):
        f = float(obj)
        return f if np.isfinite(f) else repr(f)
    if isinstance(obj, np.bool_):
        return bool(obj)
    if hasattr(obj, "__array__"):
        return to_plain(np.asarray(obj).tolist())
    return repr(obj)


def canon(obj: Any) -> str:
    return json.dumps(to_plain(obj), sort_keys=True, separators=(",", ":"))


def sha(text: str | bytes) -> str:
    if isinstance(text, str):
        text = text.encode()
    return hashlib.sha256(text).hexdigest()


def arr_digest(x: Any) -> str:
    """Bit-exact digest of an array-like: dtype, shape and bytes."""
    a = np.asarray(x)
    h = hashlib.sha256()
    h.update(str(a.dtype).encode())
    h.update(str(a.shape).encode())
    h.update(np.ascontiguousarray(a).tobytes())
    return h.hexdigest()[:16]


def tree_digest(tree: Any) -> str:
    """Bit-exact digest of a nested dict/list/tuple/dataclass-free pytree of arrays."""
    h = hashlib.sha256()

    def rec(t):
        if isinstance(t, dict):
            h.update(b"{")
            for k in sorted(t, key=str):
                h.update(str(k).encode())
                rec(t[k])
            h.update(b"}")
        elif isinstance(t, (list, tuple)):
            h.update(b"[")
            for v in t:
                rec(v)
            h.update(b"]")
        elif t is None:
            h.update(b"N")
        elif hasattr(t, "__dict__") and not hasattr(t, "__array__"):
            rec({k: v for k, v in vars(t).items()})
        else:
            h.update(arr_digest(t).encode())

    rec(tree)
    return h.hexdigest()[:16]


class EventLog:
    """Append-only log; the digest is what determinism self-tests compare."""

    def __init__(self, keep: int = 400):
        self._h = hashlib.sha256()
        self.n = 0
        self._keep = keep
        self.tail: list[str] = []

    def add(self, *items: Any) -> None:
        line = canon(items)
        self._h.update(line.encode())
        self._h.update(b"\n")
        self.n += 1
        if len(self.tail) < self._keep:
            self.tail.append(line if len(line) < 600 else line[:600] + "...")

    def digest(self) -> str:
        return self._h.hexdigest()[:24]


# --------------------------------------------------------------------------------------
# violations


class Violations:
    """Collects violations of one run; a signature is (oracle, locus)."""

    def __init__(self, prop: str, limit: int = 8):
        self.prop = prop
        self.items: list[dict] = []
        self._limit = limit
        self._seen: set[tuple[str, str]] = set()

    def add(self, oracle: str, locus: str, detail: str = "") -> None:
        key = (oracle, locus)
        if key in self._seen:
            return
        self._seen.add(key)
        if len(self.items) < self._limit:
            self.items.append(
                {"oracle": oracle, "locus": locus, "detail": str(detail)[:1500]}
            )

    def __bool__(self) -> bool:
        return bool(self.items)


def sig_of(v: dict) -> tuple[str, str]:
    return (v["oracle"], v["locus"])


class SutError(Exception):
    """Raised by props to mark an exception escaping from the system under test where the
    property demands the operation succeed."""


# --------------------------------------------------------------------------------------
# delta debugging on lists


def ddmin_list(
    items: list, test: Callable[[list], bool], max_tests: int = 120
) -> tuple[list, int]:
    """Classic ddmin: smallest sub-list (order kept) for which test() stays True."""
    n = 2
    tests = 0
    cur = list(items)
    while len(cur) >= 1 and tests < max_tests:
        chunk = max(1, len(cur) // n)
        subsets = [cur[i : i + chunk] for i in range(0, len(cur), chunk)]
        reduced = False
        for i in range(len(subsets)):
            cand = [x for j, s in enumerate(subsets) if j != i for x in s]
            tests += 1
            if test(cand):
                cur = cand
                n = max(n - 1, 2)
                reduced = True
                break
            if tests >= max_tests:
                break
        if not reduced:
            if chunk == 1:
                break
            n = min(len(cur), n * 2)
    return cur, tests


def first_n(it: Iterable, n: int) -> list:
    out = []
    for x in it:
        out.append(x)
        if len(out) >= n:
            break
    return out

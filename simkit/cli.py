"""Parent runner: ./check <id> [--tier quick|thorough] [--replay path] ...

The parent never imports jax.  It spawns workers (spawn context), hands out run indices,
collects results, minimises and replays violations, writes evidence.

Exit codes: 0 property held on everything explored (KNOWN-FINDING lines possible),
            1 violation not listed in known_findings.json (VIOLATION line printed),
            2 harness error (never to be read as a verdict).
"""

from __future__ import annotations

import argparse
import concurrent.futures as cf
import importlib
import json
import multiprocessing as mp
import os
import subprocess
import sys
import time

VERIF = os.path.dirname(os.path.dirname(os.path.abspath(__file__)))
sys.path.insert(0, VERIF)

from simkit import worker  # noqa: E402
from simkit.core import canon, sha  # noqa: E402

PROPS = [f"C{i:02d}" for i in range(1, 21)]


def _liesel_src() -> str:
    return os.environ.get("LIESEL_SRC", "/repo")


def _src_digest(src: str) -> str:
    import hashlib

    h = hashlib.sha256()
    root = os.path.join(src, "liesel")
    for d, _dirs, files in sorted(os.walk(root)):
        _dirs.sort()
        for f in sorted(files):
            if f.endswith(".py"):
                p = os.path.join(d, f)
                h.update(os.path.relpath(p, root).encode())
                with open(p, "rb") as fh:
                    h.update(fh.read())
    return h.hexdigest()[:16]


def _known() -> list[dict]:
    p = os.path.join(VERIF, "known_findings.json")
    if not os.path.exists(p):
        return []
    with open(p) as fh:
        return json.load(fh)


def _meta(prop: str) -> dict:
    """Static metadata of a property module, read without importing jax."""
    from simkit.meta import META

    return META[prop]


def _pool(workers: int) -> cf.ProcessPoolExecutor:
    ctx = mp.get_context("spawn")
    return cf.ProcessPoolExecutor(
        max_workers=workers,
        mp_context=ctx,
        initializer=worker.init_worker,
        initargs=(_liesel_src(), VERIF),
    )


def _set_env() -> None:
    os.environ["JAX_PLATFORMS"] = "cpu"
    os.environ["XLA_FLAGS"] = (
        "--xla_cpu_multi_thread_eigen=false intra_op_parallelism_threads=1"
    )
    os.environ["OMP_NUM_THREADS"] = "1"
    os.environ["OPENBLAS_NUM_THREADS"] = "1"
    os.environ["MKL_NUM_THREADS"] = "1"
    os.environ["TF_CPP_MIN_LOG_LEVEL"] = "3"
    os.environ.setdefault("PYTHONHASHSEED", "0")
    os.environ["LIESEL_VERIF"] = "1"


def _kill_pool(pool: cf.ProcessPoolExecutor) -> None:
    procs = list(getattr(pool, "_processes", {}).values())
    pool.shutdown(wait=False, cancel_futures=True)
    for p in procs:
        try:
            p.kill()
        except Exception:
            pass


def replay(prop: str, path: str) -> int:
    _set_env()
    with open(path) as fh:
        rep = json.load(fh)
    worker.init_worker(_liesel_src(), VERIF)
    res = worker.exec_plan_task(prop, rep["plan"])
    if res.get("harness_error"):
        print("HARNESS-ERROR during replay:\n" + res["harness_error"])
        return 2
    print(f"REPLAY property={prop} file={path} event_log_digest={res['digest']}")
    for v in res["violations"]:
        print(f"  violated oracle={v['oracle']} locus={v['locus']} :: {v['detail']}")
    want = (rep["signature"]["oracle"], rep["signature"]["locus"])
    got = [(v["oracle"], v["locus"]) for v in res["violations"]]
    if want in got:
        same = res["digest"] == rep.get("event_log_digest")
        print(f"REPRODUCED signature={want} event_log_digest_equal={same}")
        print(f"VIOLATION property={prop} replay={path}")
        return 1
    if got:
        print(f"DIFFERENT violation than recorded {want}: {got}")
        print(f"VIOLATION property={prop} replay={path}")
        return 1
    print("NOT-REPRODUCED: the plan passes on this tree")
    return 0


def batch(args) -> int:
    prop = args.prop
    meta = _meta(prop)
    tier = args.tier
    seed = int(os.environ.get("VERIF_SEED", "0")) if args.seed is None else args.seed
    n_runs = args.runs if args.runs else meta["runs"][tier]
    workers = args.workers or int(
        os.environ.get("VERIF_WORKERS", min(16, os.cpu_count() or 1))
    )
    workers = max(1, min(workers, n_runs))
    budget = float(os.environ.get("VERIF_BUDGET_S", meta["budget_s"][tier]))
    first = args.first
    _set_env()
    src = _liesel_src()
    print(
        f"VERIF_SEED={seed} tier={tier} property={prop} runs={first}..{first + n_runs - 1} "
        f"workers={workers} liesel_src={src}",
        flush=True,
    )
    t0 = time.monotonic()
    results: dict[int, dict] = {}
    harness_errors: list[str] = []
    pool = _pool(workers)
    twin = None
    truncated = False
    try:
        futs = {}
        for i in range(first, first + n_runs):
            futs[pool.submit(worker.run_task, prop, seed, tier, i, i < first + 3)] = i
        # determinism twin of the first run, executed wherever the pool puts it
        twin_f = pool.submit(worker.run_task, prop, seed, tier, first, False)
        pending = set(futs) | {twin_f}
        while pending:
            left = budget - (time.monotonic() - t0)
            if left <= 0:
                truncated = True
                break
            done, pending = cf.wait(
                pending, timeout=min(left, 5.0), return_when=cf.FIRST_COMPLETED
            )
            for f in done:
                r = f.result()
                if f is twin_f:
                    twin = r
                    continue
                if r.get("harness_error"):
                    harness_errors.append(f"run {futs[f]}:\n{r['harness_error']}")
                else:
                    results[futs[f]] = r
            if harness_errors:
                break
    except cf.process.BrokenProcessPool as e:
        harness_errors.append(f"worker died (run cap exceeded or crash): {e!r}")
    except Exception as e:  # pragma: no cover
        harness_errors.append(f"runner exception: {e!r}")
    wall_runs = time.monotonic() - t0

    if harness_errors:
        _kill_pool(pool)
        print("HARNESS-ERROR (no verdict):")
        for h in harness_errors[:3]:
            print(h)
        return 2
    if truncated and len(results) < max(2, n_runs // 4):
        _kill_pool(pool)
        print(
            f"HARNESS-ERROR (no verdict): wall budget {budget}s exhausted after "
            f"{len(results)}/{n_runs} runs"
        )
        return 2
    if truncated:
        for f in pending:
            f.cancel()

    det_ok = None
    if twin is not None and not twin.get("harness_error") and first in results:
        det_ok = twin["digest"] == results[first]["digest"]
        if not det_ok:
            _kill_pool(pool)
            print(
                "HARNESS-ERROR (no verdict): run 0 executed twice gave different event-log "
                f"digests {twin['digest']} vs {results[first]['digest']}"
            )
            return 2

    # ---------------- violations: classify, minimise, replay
    known = [k for k in _known() if k["property"] == prop and k["status"] == "known"]
    by_sig: dict[tuple[str, str], list[int]] = {}
    for i in sorted(results):
        for v in results[i]["violations"]:
            by_sig.setdefault((v["oracle"], v["locus"]), []).append(i)
    new_sigs, known_hits = [], {}
    for sg, idxs in by_sig.items():
        hit = next(
            (
                k
                for k in known
                if k["signature"]["oracle"] == sg[0]
                and k["signature"]["locus"] == sg[1]
            ),
            None,
        )
        if hit is not None:
            known_hits[sg] = (hit, idxs)
        else:
            new_sigs.append((sg, idxs))
    exit_code = 0
    replay_paths = []
    for sg, idxs in new_sigs[:3]:
        i = idxs[0]
        plan = results[i]["plan"]
        detail = next(
            v["detail"]
            for v in results[i]["violations"]
            if (v["oracle"], v["locus"]) == sg
        )
        n_before = _plan_size(plan)
        try:
            sh = pool.submit(
                worker.shrink_task,
                prop,
                plan,
                list(sg),
                meta.get("shrink_tests", 60),
                meta.get("shrink_s", 90),
            ).result(timeout=meta.get("shrink_s", 90) + meta.get("run_cap_s", 120) + 30)
            small = sh["plan"]
            final = pool.submit(worker.exec_plan_task, prop, small).result(
                timeout=meta.get("run_cap_s", 120) + 60
            )
        except Exception as e:
            print(f"shrinking failed ({e!r}); reporting the unminimised plan")
            small, sh = plan, {"tests": 0}
            final = {"digest": results[i]["digest"], "violations": results[i]["violations"], "tail": results[i].get("tail", [])}
        det2 = next(
            (
                v["detail"]
                for v in final["violations"]
                if (v["oracle"], v["locus"]) == sg
            ),
            detail,
        )
        os.makedirs(os.path.join(VERIF, "replays", prop), exist_ok=True)
        path = os.path.join(VERIF, "replays", prop, f"{seed}-{i}-{sha(canon(sg))[:6]}.json")
        with open(path, "w") as fh:
            json.dump(
                {
                    "property": prop,
                    "world": meta["world"],
                    "seed": seed,
                    "run_index": i,
                    "tier": tier,
                    "plan": small,
                    "signature": {"oracle": sg[0], "locus": sg[1], "detail": det2},
                    "event_log_digest": final["digest"],
                    "event_log_tail": final.get("tail", []),
                    "minimised_from": {"size": n_before, "to": _plan_size(small), "reexecutions": sh["tests"]},
                    "runs_with_this_signature": idxs[:50],
                    "liesel_src_digest": _src_digest(src),
                },
                fh,
                indent=1,
            )
        # the replay must reproduce in a fresh process
        rp = subprocess.run(
            [sys.executable, os.path.abspath(__file__), prop, "--replay", path],
            capture_output=True,
            text=True,
            timeout=meta.get("run_cap_s", 120) + 120,
        )
        if rp.returncode != 1 or f"REPRODUCED signature=('{sg[0]}', '{sg[1]}')" not in rp.stdout:
            _kill_pool(pool)
            print("HARNESS-ERROR (no verdict): minimised plan does not replay in a fresh process")
            print(rp.stdout[-2000:], rp.stderr[-2000:])
            return 2
        print(f"violated oracle={sg[0]} locus={sg[1]} runs={idxs[:8]} :: {det2}")
        print(f"VIOLATION property={prop} replay={path}")
        replay_paths.append(path)
        exit_code = 1
    for sg, idxs in new_sigs[3:]:
        print(f"(further signature, not minimised) oracle={sg[0]} locus={sg[1]} runs={idxs[:8]}")
    for sg, (hit, idxs) in known_hits.items():
        print(f"KNOWN-FINDING: property={prop} {hit['what']} [oracle={sg[0]} locus={sg[1]} runs={len(idxs)}]")
    pool.shutdown(wait=True, cancel_futures=True)

    wall = time.monotonic() - t0
    if not args.no_evidence:
        _write_evidence(prop, meta, tier, seed, results, wall, wall_runs, workers, by_sig, known_hits, det_ok, truncated, n_runs, src)
    if args.dump_digests:
        with open(args.dump_digests, "w") as fh:
            json.dump({str(i): results[i]["digest"] for i in sorted(results)}, fh)
    nviol = sum(1 for r in results.values() if r["violations"])
    print(
        f"done property={prop} runs={len(results)} violating_runs={nviol} "
        f"new_signatures={len(new_sigs)} known={len(known_hits)} wall={wall:.1f}s exit={exit_code}"
    )
    return exit_code


def _plan_size(plan) -> int:
    n = 0
    if isinstance(plan, dict):
        for v in plan.values():
            n += _plan_size(v)
    elif isinstance(plan, list):
        n += len(plan)
        for v in plan:
            if isinstance(v, (dict, list)):
                n += _plan_size(v)
    return n


def _write_evidence(prop, meta, tier, seed, results, wall, wall_runs, workers, by_sig, known_hits, det_ok, truncated, n_runs, src):
    counters: dict[str, int] = {}
    sigs = set()
    simtime = 0
    samples = []
    subbatches: dict[str, int] = {}
    for i in sorted(results):
        r = results[i]
        for k, v in r.get("counters", {}).items():
            counters[k] = counters.get(k, 0) + int(v)
        if r.get("nontrivial"):
            sigs.add(r["sig"])
        simtime += int(r.get("simtime", 0))
        sb = r.get("subbatch", "default")
        subbatches[sb] = subbatches.get(sb, 0) + 1
        if "sample" in r and len(samples) < 3:
            samples.append({"run_index": i, "plan": r["sample"], "event_log_digest": r["digest"]})
    n = len(results)
    faults = {k: v for k, v in counters.items() if k.startswith("fault.")}
    probes = {k: v for k, v in counters.items() if k.startswith("probe.")}
    other = {k: v for k, v in counters.items() if not (k.startswith("fault.") or k.startswith("probe."))}
    ev = {
        "property_id": prop,
        "tier": tier,
        "seed": seed,
        "level": meta["level"],
        "coverage": {
            "evaluations": n,
            "distinct_nontrivial": len(sigs),
            "rule": meta["rule"],
            "samples": samples,
            "runs_requested": n_runs,
            "truncated_by_budget": truncated,
            "sub_batches": subbatches,
            "simulated_time": {"unit": meta["simtime_unit"], "total": simtime},
            "runs_per_hour": round(n / max(wall_runs, 1e-9) * 3600),
            "seeds_per_hour": round(n / max(wall_runs, 1e-9) * 3600),
            "workers": workers,
            "faults_injected": faults,
            "reach_probes": probes,
            "counters": other,
            "distinct_measure": meta["distinct_measure"],
            "components": meta["components"],
            "fault_kinds_not_applicable": meta.get("faults_not_applicable", []),
            "determinism_selfcheck_run0_twice_equal": det_ok,
            "violating_signatures": [
                {"oracle": s[0], "locus": s[1], "runs": len(ix), "known": s in known_hits}
                for s, ix in by_sig.items()
            ],
            "liesel_src": src,
            "liesel_src_digest": _src_digest(src),
        },
        "assumptions": meta["assumptions"],
        "wall_s": round(wall, 2),
        "violations": sum(1 for s in by_sig if s not in known_hits),
    }
    try:
        import jsonschema

        with open("/root/.vp/EVIDENCE.schema.json") as fh:
            jsonschema.validate(ev, json.load(fh))
    except FileNotFoundError:
        pass
    except ImportError:
        pass
    os.makedirs(os.path.join(VERIF, "evidence"), exist_ok=True)
    with open(os.path.join(VERIF, "evidence", f"{prop}.json"), "w") as fh:
        json.dump(ev, fh, indent=1)


def main() -> int:
    if len(sys.argv) > 1 and sys.argv[1] == "selftest-determinism":
        from simkit import selftest

        return selftest.determinism(sys.argv[2:])
    ap = argparse.ArgumentParser()
    ap.add_argument("prop")
    ap.add_argument("--tier", default=os.environ.get("VERIF_TIER", "quick"), choices=["quick", "thorough"])
    ap.add_argument("--replay")
    ap.add_argument("--runs", type=int)
    ap.add_argument("--first", type=int, default=0)
    ap.add_argument("--workers", type=int)
    ap.add_argument("--seed", type=int)
    ap.add_argument("--no-evidence", action="store_true")
    ap.add_argument("--dump-digests")
    args = ap.parse_args()
    if args.prop not in PROPS:
        print(f"unknown property {args.prop}")
        return 2
    if args.replay:
        return replay(args.prop, args.replay)
    return batch(args)


if __name__ == "__main__":
    sys.exit(main())

"""C20 — optim_flat: documented stopping rule, restored optimum, fresh mini-batches (world O)."""

from __future__ import annotations

import contextlib
import copy
import io

import jax
import jax.numpy as jnp
import numpy as np
import optax
import tensorflow_probability.substrates.jax.distributions as tfd

import liesel.goose as gs
import liesel.model as lsl
from liesel.goose.optim import Stopper, optim_flat
from simkit.core import EventLog, SutError, Violations, canon, sha

RUN_CAP_S = 900
F32 = np.float32


# ---------------------------------------------------------------------------- reference stopper


def ref_condition(window, atol, rtol) -> bool:
    """The documented tolerance rule on a full patience window (float32 arithmetic, as the
    implementation's dtype, so that borderline comparisons agree bit for bit)."""
    w = np.asarray(window, F32)
    best = w.min()
    oldest = w[0]
    diff = F32(oldest - best)
    with np.errstate(divide="ignore", invalid="ignore"):
        rel = F32(diff / np.abs(best))
    return bool(diff <= F32(atol)) or bool(rel <= F32(rtol))


def ref_first_stop(losses, p, atol, rtol, max_iter):
    """First iteration index at which the documented rule stops the loop."""
    for i in range(len(losses)):
        if i >= max_iter - 1:
            return i
        if i > p and ref_condition(losses[i - p + 1: i + 1], atol, rtol):
            return i
    return None


# ---------------------------------------------------------------------------- plans


def gen_history(rng, n):
    kind = rng.choice(["alphabet", "walk", "descending", "plateau"])
    if kind == "alphabet":
        alpha = [rng.choice([0.0, 0.25, 0.5, 0.75, 1.0, 1.5, 2.0, 2.5, 3.0, -0.5, -1.0]) for _ in range(rng.randint(2, 4))]
        return [rng.choice(alpha) for _ in range(n)]
    if kind == "walk":
        x = rng.choice([2.0, 5.0, 10.0])
        out = []
        for _ in range(n):
            x += rng.choice([-0.5, -0.25, -0.25, 0.0, 0.25])
            out.append(x)
        return out
    if kind == "descending":
        x = 8.0
        out = []
        for i in range(n):
            x -= rng.choice([0.5, 0.25, 0.125, 0.0])
            out.append(x)
        return out
    x = rng.choice([1.0, 3.0])
    out = []
    for i in range(n):
        if rng.random() < 0.15:
            x += rng.choice([-0.25, 0.25])
        out.append(x)
    return out


def gen_plan(rng, tier: str, idx: int) -> dict:
    stoppers = []
    for _ in range(6):
        p = rng.randint(1, 12)
        n = rng.randint(max(p, 2), 40)
        stoppers.append({"patience": p, "max_iter": n, "atol": rng.choice([0.0, 0.0, 0.1, 0.25, 0.6, 1.0]),
                         "rtol": rng.choice([0.0, 0.0, 0.1, 0.5, 1.0]),
                         "histories": [gen_history(rng, n) for _ in range(8)], "mode": rng.choice(["eager", "jit", "vmap"])})
    plan = {"stoppers": stoppers, "run": None}
    r = idx % 4
    if r == 0:
        n = rng.choice([7, 9, 10, 11, 13, 14, 17, 19, 23])
        bs = [b for b in range(2, n) if n % b != 0 and (n % b) / n <= 1 / 3]
        b = rng.choice(bs)
        plan["run"] = {"kind": "identity", "n": n, "batch": b, "T": rng.randint(30, 40), "batch_seed": rng.randrange(1, 10**6),
                       "y": [round(rng.uniform(1.0, 3.0) * rng.choice([-1, 1]), 3) for _ in range(n)],
                       "prune": rng.random() < 0.5, "restore": rng.random() < 0.5}
    elif r == 2:
        n = rng.randint(12, 30)
        nv = rng.randint(6, 15)
        plan["run"] = {"kind": "regression", "n": n, "n_val": nv, "data_seed": rng.randrange(10**6),
                       "beta": [round(rng.uniform(-2, 2), 2), round(rng.uniform(-2, 2), 2)],
                       "patience": rng.randint(2, 8), "max_iter": rng.randint(15, 80),
                       "atol": rng.choice([0.0, 1e-3, 1e-2, 0.1]), "rtol": rng.choice([0.0, 1e-3, 1e-2]),
                       "lr": rng.choice([0.3, 0.1, 0.05, 0.5]), "opt": rng.choice(["adam", "sgd"]),
                       "batch": rng.choice([None, None, 4, 5]), "batch_seed": rng.randrange(1, 10**6),
                       "prune": rng.random() < 0.5, "restore": rng.random() < 0.6, "validation": rng.random() < 0.8}
    return plan


def abbreviate(plan):
    return {"stoppers": [{k: v for k, v in s.items() if k != "histories"} | {"first_history": s["histories"][0]} for s in plan["stoppers"][:2]],
            "run": plan["run"]}


def shrink_candidates(plan):
    if plan["run"] is not None:
        p = copy.deepcopy(plan)
        p["run"] = None
        yield p
    if plan["stoppers"]:
        p = copy.deepcopy(plan)
        p["stoppers"] = []
        yield p
        if len(plan["stoppers"]) > 1:
            for i in range(len(plan["stoppers"])):
                p = copy.deepcopy(plan)
                p["stoppers"] = [plan["stoppers"][i]]
                yield p
        else:
            s = plan["stoppers"][0]
            if len(s["histories"]) > 1:
                for h in s["histories"]:
                    p = copy.deepcopy(plan)
                    p["stoppers"][0]["histories"] = [h]
                    yield p
            if s["mode"] != "eager":
                p = copy.deepcopy(plan)
                p["stoppers"][0]["mode"] = "eager"
                yield p
    r = plan["run"]
    if r and r["kind"] == "regression":
        for k, v in (("batch", None), ("validation", False), ("restore", False), ("prune", True)):
            if r[k] != v:
                p = copy.deepcopy(plan)
                p["run"][k] = v
                yield p


# ---------------------------------------------------------------------------- stopper histories


def check_stoppers(plan, V, log, counters):
    for s in plan["stoppers"]:
        p, n = s["patience"], s["max_iter"]
        st = Stopper(max_iter=n, patience=p, atol=s["atol"], rtol=s["rtol"])
        H = np.asarray(s["histories"], F32)
        idx = np.arange(n)
        if s["mode"] == "eager":
            sel = list(range(0, n, max(1, n // 6))) + [n - 1, min(p + 1, n - 1)]
            got_early = {(h, i): bool(st.stop_early(i, jnp.asarray(H[h]))) for h in range(min(2, len(H))) for i in sel}
            got_now = {(h, i): bool(st.stop_now(i, jnp.asarray(H[h]))) for h in range(min(2, len(H))) for i in sel}
        else:
            fe = jax.vmap(jax.vmap(st.stop_early, in_axes=(0, None)), in_axes=(None, 0))
            fn = jax.vmap(jax.vmap(st.stop_now, in_axes=(0, None)), in_axes=(None, 0))
            if s["mode"] == "jit":
                fe, fn = jax.jit(fe), jax.jit(fn)
            E = np.asarray(fe(jnp.asarray(idx), jnp.asarray(H)))
            N = np.asarray(fn(jnp.asarray(idx), jnp.asarray(H)))
            got_early = {(h, i): bool(E[h, i]) for h in range(len(H)) for i in idx}
            got_now = {(h, i): bool(N[h, i]) for h in range(len(H)) for i in idx}
        for (h, i), ge in got_early.items():
            full = i >= p - 1
            cond = ref_condition(H[h][i - p + 1: i + 1], s["atol"], s["rtol"]) if full else False
            desc = f"patience={p} atol={s['atol']} rtol={s['rtol']} i={i} window={H[h][max(i - p + 1, 0): i + 1].tolist()}"
            if ge and not (full and cond):
                V.add("stopper-rule", "stops-without-cause" if full else "stops-before-full-window", f"stop_early is True but the documented rule does not hold: {desc}")
            if i > p and cond and not ge:
                V.add("stopper-rule", "misses-stop", f"stop_early is False although the documented rule holds after a full window: {desc}")
            gn = got_now[(h, i)]
            if gn != (ge or i >= n - 1):
                V.add("stopper-rule", "stop-now", f"stop_now = {gn}, stop_early = {ge}, i = {i}, max_iter = {n}")
            counters["stopper_decisions"] = counters.get("stopper_decisions", 0) + 1
            if ge:
                counters["probe.early_stop_true"] = counters.get("probe.early_stop_true", 0) + 1
            if i == p or i == p + 1:
                counters["probe.boundary_i_near_patience"] = counters.get("probe.boundary_i_near_patience", 0) + 1
        # argmin of the final window
        for h in range(min(3, len(H))):
            for i in (n - 1, max(p - 1, (n - 1) // 2)):
                if i < p - 1:
                    continue
                ib = int(st.which_best_in_recent_history(i, jnp.asarray(H[h])))
                w = H[h][i - p + 1: i + 1]
                if not (i - p + 1 <= ib <= i) or H[h][ib] != w.min():
                    V.add("best-in-window", "index", f"which_best_in_recent_history(i={i}) = {ib}, window {w.tolist()} (patience {p})")
        log.add("stopper", p, n, s["atol"], s["rtol"], s["mode"])


# ---------------------------------------------------------------------------- optim_flat runs


def quiet(f, *a, **k):
    with contextlib.redirect_stderr(io.StringIO()):
        return f(*a, **k)


def identity_model(y):
    n = len(y)
    theta = lsl.Var(jnp.zeros(n, jnp.float32), name="theta")
    theta.parameter = True
    X = lsl.Var(jnp.eye(n, dtype=jnp.float32), name="X")
    X.observed = True
    mu = lsl.Var(lsl.Calc(jnp.dot, X, theta), name="mu")
    yv = lsl.Var(jnp.asarray(y, jnp.float32), lsl.Dist(tfd.Normal, loc=mu, scale=jnp.float32(1.0)), name="y")
    yv.observed = True
    return lsl.GraphBuilder().add(yv).build_model()


def run_identity(r, V, log, counters):
    n, b, T = r["n"], r["batch"], r["T"]
    model = identity_model(r["y"])
    lr = 0.2 * b / n
    stopper = Stopper(max_iter=T + 1, patience=T + 1)
    try:
        res = quiet(optim_flat, model, ["theta"], optimizer=optax.sgd(lr), stopper=stopper, batch_size=b, batch_seed=r["batch_seed"],
                    prune_history=r["prune"], restore_best_position=r["restore"], progress_bar=False)
    except Exception as e:
        raise SutError(f"optim_flat|{type(e).__name__}|identity|{e}") from e
    pos = np.asarray(res.history["position"]["theta"])
    it = int(res.iteration)
    if it != T:
        V.add("iteration-limit", "identity", f"loop ended at iteration {it}, max_iter - 1 = {T}, no validation model (no early stopping)")
    P = pos[: it + 1]
    moved = P[1:] != P[:-1]  # (iterations, n): observation i was in a batch of iteration t
    used = moved.sum(axis=1)
    r_left = n % b
    if np.any(used != n - r_left):
        V.add("batching", "batch-coverage", f"n={n}, batch={b}: observations used per iteration {used.tolist()[:10]}, expected {n - r_left} each")
    elif np.all(moved == moved[0]):
        never = np.where(~moved.any(axis=0))[0].tolist()
        V.add("batching", "batches-not-redrawn", f"n={n}, batch={b}, {it} iterations: batch membership is identical in every iteration; observations {never} never enter the fit")
    elif not moved.any(axis=0).all():
        never = np.where(~moved.any(axis=0))[0].tolist()
        V.add("batching", "observation-never-used", f"observations {never} were in no batch during {it} iterations (n={n}, batch={b})")
    counters["probe.identity_design_runs"] = 1
    counters["distinct_batch_patterns"] = len({row.tobytes() for row in moved})
    log.add("identity", n, b, T, moved.astype(int).sum(axis=0).tolist())
    check_result(res, model, ["theta"], stopper_p=T + 1, user_p=T + 1, max_iter=T + 1, atol=1e-3, rtol=0.0, r=r, V=V, validation=False)
    return it


def regression_models(r):
    rs = np.random.RandomState(r["data_seed"])

    def make(n):
        x = rs.normal(size=n).astype(F32)
        y = (r["beta"][0] + r["beta"][1] * x + rs.normal(size=n)).astype(F32)
        coef = lsl.Var(jnp.zeros(2, jnp.float32), lsl.Dist(tfd.Normal, loc=jnp.float32(0.0), scale=jnp.float32(10.0)), name="coef")
        coef.parameter = True
        X = lsl.Var(jnp.c_[jnp.ones(n, jnp.float32), jnp.asarray(x)], name="X")
        X.observed = True
        mu = lsl.Var(lsl.Calc(jnp.dot, X, coef), name="mu")
        yv = lsl.Var(jnp.asarray(y), lsl.Dist(tfd.Normal, loc=mu, scale=jnp.float32(1.0)), name="y")
        yv.observed = True
        return lsl.GraphBuilder().add(yv).build_model()

    return make(r["n"]), make(r["n_val"])


def run_regression(r, V, log, counters):
    train, val = regression_models(r)
    stopper = Stopper(max_iter=r["max_iter"], patience=r["patience"], atol=r["atol"], rtol=r["rtol"])
    opt = optax.adam(r["lr"]) if r["opt"] == "adam" else optax.sgd(r["lr"] / r["n"])
    try:
        res = quiet(optim_flat, train, ["coef"], optimizer=opt, stopper=stopper, batch_size=r["batch"], batch_seed=r["batch_seed"],
                    model_validation=val if r["validation"] else None, prune_history=r["prune"],
                    restore_best_position=r["restore"], progress_bar=False)
    except Exception as e:
        raise SutError(f"optim_flat|{type(e).__name__}|regression|{e}") from e
    if stopper.patience != r["patience"]:
        V.add("stopper-object-modified", "patience", f"the caller's Stopper has patience {stopper.patience} after optim_flat, was {r['patience']}")
    eff_p = r["patience"] if r["validation"] else r["max_iter"]
    check_result(res, train, ["coef"], stopper_p=eff_p, user_p=r["patience"], max_iter=r["max_iter"], atol=r["atol"], rtol=r["rtol"], r=r, V=V, validation=r["validation"])
    it = int(res.iteration)
    counters["probe.regression_runs"] = 1
    counters["probe.stopped_early"] = int(it < r["max_iter"] - 1)
    counters["probe.ran_to_limit"] = int(it == r["max_iter"] - 1)
    log.add("regression", it, int(res.iteration_best), np.asarray(res.history["loss_validation"]).tolist()[:5])
    return it


def check_result(res, model, params, stopper_p, user_p, max_iter, atol, rtol, r, V, validation):
    it = int(res.iteration)
    ib = int(res.iteration_best)
    lv = np.asarray(res.history["loss_validation"], F32)
    lt = np.asarray(res.history["loss_train"], F32)
    # documented lengths / NaN padding
    for nm, arr in (("loss_validation", lv), ("loss_train", lt)) + tuple((f"position.{k}", np.asarray(v)) for k, v in res.history["position"].items()):
        if r["prune"]:
            if arr.shape[0] != it + 1:
                V.add("history-length", "pruned", f"{nm}: length {arr.shape[0]}, last iteration {it} (expected {it + 1})")
            elif np.isnan(arr).any():
                V.add("history-length", "nan-in-pruned", f"{nm} contains NaN")
        else:
            if arr.shape[0] != max_iter:
                V.add("history-length", "unpruned", f"{nm}: length {arr.shape[0]}, max_iter {max_iter}")
            else:
                head, tail = arr[: it + 1], arr[it + 1:]
                if np.isnan(head).any() or (tail.size and not np.isnan(tail).all()):
                    V.add("history-length", "nan-padding", f"{nm}: used entries 0..{it} must be numbers and the rest NaN; got {arr.tolist()[max(0, it - 1): it + 3]}")
    if int(res.max_iter) != max_iter:
        V.add("history-length", "max_iter", f"max_iter {res.max_iter} vs {max_iter}")
    used = lv[: it + 1]
    # the loop ended exactly where the documented rule says, on the recorded validation losses
    exp = ref_first_stop(used.tolist() + [0.0] * 0, stopper_p, atol, rtol, max_iter)
    if exp is None or exp != it:
        V.add("stops-where-documented", "early" if it < max_iter - 1 else "limit",
              f"loop ended at iteration {it}; the documented rule (patience {stopper_p}, atol {atol}, rtol {rtol}, max_iter {max_iter}) on the recorded validation losses stops at {exp}; losses {used.tolist()[-(stopper_p + 3):]}")
    # best iteration minimises the validation loss within the final (user) patience window
    lo = it - user_p + 1
    if lo >= 0:
        w = used[lo: it + 1]
        if not (lo <= ib <= it) or used[ib] != w.min():
            V.add("best-iteration", "not-minimal", f"iteration_best {ib} (loss {used[ib] if 0 <= ib <= it else None}); final window {lo}..{it} has minimum {w.min()} at {lo + int(w.argmin())}")
    # the returned position is the recorded position at the reported iteration
    for k, v in res.position.items():
        hist = np.asarray(res.history["position"][k])
        want = hist[ib] if r["restore"] else hist[it]
        if not np.array_equal(np.asarray(v), want):
            V.add("returned-position", "restored" if r["restore"] else "last", f"{k}: returned {np.asarray(v).tolist()}, recorded at iteration {ib if r['restore'] else it}: {want.tolist()}")
    # the returned model state is consistent with the returned position
    ref = copy.deepcopy(model)
    ref.auto_update = False
    for k, v in res.position.items():
        ref.vars[k].value = jnp.asarray(v)
    ref.update()
    for k in res.position:
        node = ref.vars[k].value_node.name
        if not np.array_equal(np.asarray(res.model_state[node].value), np.asarray(res.position[k])):
            V.add("model-state-consistent", "position", f"model_state[{node}] differs from the returned position")
    got_lp = np.asarray(res.model_state["_model_log_prob"].value, np.float64)
    want_lp = np.asarray(ref.log_prob, np.float64)
    if not np.allclose(got_lp, want_lp, rtol=1e-5, atol=1e-4):
        V.add("model-state-consistent", "log-prob", f"model_state log_prob {got_lp} vs {want_lp} at the returned position")


def execute(plan: dict) -> dict:
    V = Violations("C20")
    log = EventLog()
    counters: dict = {}
    check_stoppers(plan, V, log, counters)
    sim = sum(len(s["histories"]) * s["max_iter"] for s in plan["stoppers"])
    sub = "stopper-histories"
    if plan["run"] is not None and not V.items:
        if plan["run"]["kind"] == "identity":
            sim += run_identity(plan["run"], V, log, counters)
            sub = "stopper+identity-design-batching"
        else:
            sim += run_regression(plan["run"], V, log, counters)
            sub = "stopper+regression-run"
    return {"violations": V.items, "digest": log.digest(), "tail": log.tail[:30],
            "sig": sha(canon([[(s["patience"], s["max_iter"], s["atol"], s["rtol"], s["mode"]) for s in plan["stoppers"]], plan["run"]]))[:16],
            "nontrivial": sim > 0, "counters": counters, "simtime": sim, "subbatch": sub}

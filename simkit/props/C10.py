"""C10 — reproducible sampling, independent chains, initial values honoured (world E)."""

from __future__ import annotations

import copy

import jax
import jax.numpy as jnp
import numpy as np

import liesel.goose as gs
from simkit import engine_world as W
from simkit.core import EventLog, SutError, Violations, canon, sha, tree_digest
from simkit.props.C07 import failed, run_engine, sut_violation

RUN_CAP_S = 900


# ---------------------------------------------------------------------------- plans


def gen_plan(rng, tier: str, idx: int) -> dict:
    plan = gen_probe(rng, tier) if rng.random() < 0.5 else gen_rw(rng, tier)
    # every 6th run is repeated in a fresh interpreter under another string-hash seed
    # (reproducible = same results in another process, not only within this one)
    plan["xproc"] = rng.randrange(1, 10**6) if idx % 6 == 0 else None
    return plan


def other_process_digest(plan: dict) -> str:
    """Event-log digest of the same plan executed in a fresh interpreter with PYTHONHASHSEED =
    plan['xproc'] (the workers of this batch all run under one hash seed)."""
    import json
    import os
    import subprocess
    import sys

    import liesel

    verif = os.path.dirname(os.path.dirname(os.path.dirname(os.path.abspath(__file__))))
    src = os.path.dirname(os.path.dirname(os.path.abspath(liesel.__file__)))
    child = dict(plan, xproc=None)
    code = (
        "import sys, json\n"
        f"sys.path.insert(0, {verif!r})\n"
        "from simkit import worker\n"
        f"worker.init_worker({src!r}, {verif!r})\n"
        "from simkit.props import C10\n"
        "r = C10.execute(json.load(sys.stdin))\n"
        "print('XPROC-DIGEST', r['digest'], len(r['violations']))\n"
    )
    env = dict(os.environ, PYTHONHASHSEED=str(plan["xproc"]))
    r = subprocess.run([sys.executable, "-W", "ignore", "-c", code], input=json.dumps(child), capture_output=True, text=True, env=env, timeout=RUN_CAP_S - 60)
    for line in r.stdout.splitlines():
        if line.startswith("XPROC-DIGEST"):
            return line.split()[1]
    raise RuntimeError(f"child interpreter gave no digest: {r.stdout[-500:]} {r.stderr[-1500:]}")


def gen_probe(rng, tier):
    eps, g = W.gen_schedule(rng, max_epochs=5, max_dur=16)
    via = rng.choice(["engine", "engine", "builder", "builder_multi"])
    if via != "engine":
        epochs0, script, chunk = [[0, 1, 1]] + eps, [["all"]], g
    else:
        epochs0, script = W.gen_script(rng, eps)
        chunk = rng.choice(W.divisors(g))
    return {
        "sub": "probe",
        "chains": rng.randint(1, 6),
        "chunk": chunk,
        "seed": rng.randrange(2**31),
        "via": via,
        "kernels": W.gen_kernels(rng, max_k=4, hist_p=0.2),
        "epochs0": epochs0,
        "script": script,
        "store_ks": True,
        "minimize": False,
        "included": [],
        "excluded": [],
        "qgen": rng.choice([0, 1, 2]),
        "idents": None,
    }


def gen_rw(rng, tier):
    C = rng.randint(2, 5)
    d = rng.choice([1, 2, 3])
    multi = rng.random() < 0.5
    jitter = rng.choice([None, "shift", "noise", "noise"])
    at_mode = (not multi) and jitter is None
    x0 = [[0.0] * d for _ in range(C)] if at_mode else [[round(rng.uniform(-2, 2), 3) for _ in range(d)] for _ in range(C)]
    y0 = [0.0] * C if at_mode else [round(rng.uniform(-2, 2), 3) for _ in range(C)]
    n_ep = rng.randint(1, 3)
    base = rng.choice([2, 3, 5])
    eps = []
    types = sorted(rng.choice([1, 2, 3, 4]) for _ in range(n_ep))
    for t in types:
        dur = base * rng.randint(1, 4)
        eps.append([t, dur, 1])
    return {
        "sub": "rw",
        "chains": C,
        "dim": d,
        "multi": multi,
        "jitter": jitter,
        "jitter_keys": rng.choice([["x"], ["y"], ["x", "y"]]),
        "delta": round(rng.uniform(0.25, 3.0), 3),
        "x0": x0,
        "y0": y0,
        "epochs": [[0, 1, 1]] + eps,
        "seed": rng.randrange(2**31),
        "seed_as_key": rng.random() < 0.5,
        "step": rng.choice([0.5, 1.0, 2.0]),
        "perturb": rng.randrange(C) if multi and rng.random() < 0.7 else None,
        "kernel_split": rng.random() < 0.7,
    }


def shrink_candidates(plan):
    if plan.get("xproc"):
        # first try without the repetition in another interpreter (a violation that does not need
        # it shrinks much faster without one more process per candidate)
        p = copy.deepcopy(plan)
        p["xproc"] = None
        yield p
    if plan["sub"] == "probe":
        for p in W.shrink_candidates_E(plan):
            yield p
        return
    def cp():
        return copy.deepcopy(plan)
    if len(plan["epochs"]) > 2:
        for i in range(len(plan["epochs"]) - 1, 0, -1):
            p = cp()
            del p["epochs"][i]
            yield p
    for i in range(1, len(plan["epochs"])):
        if plan["epochs"][i][1] > 1:
            p = cp()
            p["epochs"][i][1] = 1
            yield p
    if plan["chains"] > 2:
        p = cp()
        p["chains"] = 2
        p["x0"], p["y0"] = p["x0"][:2], p["y0"][:2]
        if p["perturb"] is not None:
            p["perturb"] = min(p["perturb"], 1)
        yield p
    if plan["perturb"] is not None:
        p = cp()
        p["perturb"] = None
        yield p
    if plan["jitter"] is not None:
        p = cp()
        p["jitter"] = None
        yield p
    if plan["dim"] > 1:
        p = cp()
        p["dim"] = 1
        p["x0"] = [r[:1] for r in p["x0"]]
        yield p
    if plan["seed_as_key"]:
        p = cp()
        p["seed_as_key"] = False
        yield p
    if plan["kernel_split"]:
        p = cp()
        p["kernel_split"] = False
        yield p


# ---------------------------------------------------------------------------- probe sub-batch


def key_tuples(a) -> list[tuple[int, int]]:
    a = np.asarray(a).reshape(-1, 2)
    return [(int(r[0]), int(r[1])) for r in a]


def exec_probe(plan, V, log, counters):
    ref = W.RefEngine(plan).run()
    try:
        got, _ = run_engine(plan, log)
    except SutError as e:
        if "multiple_chains=True" in str(e):
            V.add("initial-values", "multiple_chains=True", str(e))
        else:
            sut_violation(V, e)
        return 0
    T = len(ref["trans"])
    C = plan["chains"]
    # (1) twin with fresh objects
    got2, _ = run_engine(plan)
    for part in ("samples", "infos", "kstates", "tuning", "gq"):
        if tree_digest(got[part]) != tree_digest(got2[part]):
            V.add("twin-run", part, f"two runs with identical seed/model/kernels/schedule differ in {part}")
    # (2) all keys distinct
    pool: dict[tuple[int, int], str] = {}
    dup = None

    def put(keys, label):
        nonlocal dup
        for kt in keys:
            if kt in pool and dup is None:
                dup = (kt, pool[kt], label)
            pool[kt] = label

    for kid, inf in got["infos"].items():
        for c in range(C):
            for i, kt in enumerate(key_tuples(inf["key"][c])):
                put([kt], f"transition {kid} chain {c} #{i}")
    if got["kstates"] is not None and T:
        for k, ks in enumerate(got["kstates"]):
            for c in range(C):
                n = int(ks["n_calls"][c, -1])
                put(key_tuples(ks["keys"][c, -1, :n]), f"lifecycle-call kernel {k} chain {c}")
                put(key_tuples(ks["init_key"][c, -1]), f"init_state kernel {k} chain {c}")
    if got["gq"] is not None:
        for qid, q in got["gq"].items():
            for c in range(C):
                put(key_tuples(q["key"][c]), f"quantity-generator {qid} chain {c}")
    if dup is not None:
        a, b = dup[1], dup[2]
        kind = lambda s: s.split(" ")[0]
        V.add("distinct-keys", f"{kind(a)}~{kind(b)}", f"the same PRNG key {dup[0]} was handed to [{a}] and to [{b}]")
    counters["keys_compared"] = len(pool)
    # (3) initial values honoured (probe states are per-chain for engine / builder_multi)
    RE = W.RefEngine(plan)
    if ref["stored"]:
        for ki, ks in enumerate(plan["kernels"]):
            for spec in ks["keys"]:
                arr = got["samples"][spec["name"]]
                for c in range(C):
                    exp = np.asarray(W.initial_state(plan, RE.cid(c))[spec["name"]])
                    if not np.array_equal(arr[c, 0], exp):
                        V.add("initial-values", "first-sample/" + plan["via"], f"{spec['name']} chain {c}: first recorded sample {arr[c, 0].tolist()} != supplied initial value {exp.tolist()}")
    log.add("samples", tree_digest(got["samples"]), tree_digest(got["infos"]), tree_digest(got["kstates"]))
    counters["probe.multi_chain_states_via_builder"] = int(plan["via"] == "builder_multi")
    return T * C


# ---------------------------------------------------------------------------- RW sub-batch


def rw_logprob(s):
    return -0.5 * jnp.sum(s["x"] ** 2) - 0.5 * s["y"] ** 2


def build_rw(plan, seed_as_key=False, x0=None, y0=None):
    C, d = plan["chains"], plan["dim"]
    x0 = plan["x0"] if x0 is None else x0
    y0 = plan["y0"] if y0 is None else y0
    model = gs.DictInterface(rw_logprob)
    seed = jax.random.PRNGKey(plan["seed"]) if seed_as_key else plan["seed"]
    b = gs.EngineBuilder(seed=seed, num_chains=C)
    b.set_epochs([W.cfg(e) for e in plan["epochs"]])
    b.set_model(model)
    states = [{"x": jnp.asarray(x0[c], jnp.float32), "y": jnp.asarray(y0[c], jnp.float32)} for c in range(C)]
    if plan["multi"]:
        stacked = jax.tree_util.tree_map(lambda *xs: jnp.stack(xs), *states)
        try:
            b.set_initial_values(stacked, multiple_chains=True)
        except Exception as e:
            raise SutError(f"set_initial_values(states, multiple_chains=True) raised {type(e).__name__}: {e}")
    else:
        b.set_initial_values(states[0])
    delta = plan["delta"]
    if plan["jitter"] == "shift":
        b.set_jitter_fns({k: (lambda key, v: v + jnp.float32(delta)) for k in plan["jitter_keys"]})
    elif plan["jitter"] == "noise":
        b.set_jitter_fns({k: (lambda key, v: v + jax.random.uniform(key, v.shape, v.dtype, -delta, delta)) for k in plan["jitter_keys"]})
    if plan["kernel_split"]:
        b.add_kernel(gs.RWKernel(["x"], initial_step_size=plan["step"]))
        b.add_kernel(gs.RWKernel(["y"], initial_step_size=plan["step"]))
    else:
        b.add_kernel(gs.RWKernel(["x", "y"], initial_step_size=plan["step"]))
    b.show_progress = False
    b.store_kernel_states = True
    return b.build()


def run_rw(plan, **kw):
    eng = build_rw(plan, **kw)
    eng.sample_all_epochs()
    return W.collect(eng.get_results())


def exec_rw(plan, V, log, counters):
    C, d = plan["chains"], plan["dim"]
    try:
        A = run_rw(plan)
    except SutError as e:
        V.add("initial-values", "multiple_chains=True", str(e))
        return 0
    B = run_rw(plan, seed_as_key=plan["seed_as_key"])
    which = "int-vs-key" if plan["seed_as_key"] else "twin-run"
    for part in ("samples", "infos", "kstates", "tuning"):
        if tree_digest(A[part]) != tree_digest(B[part]):
            V.add(which, part, f"{'integer seed vs PRNGKey(seed)' if plan['seed_as_key'] else 'identical repeated run'}: {part} differ")
    T = A["infos"]["kernel_00"]["error_code"].shape[1]
    # first recorded sample = supplied initial value after jitter
    f32 = np.float32
    for name in ("x", "y"):
        for c in range(C):
            src = c if plan["multi"] else 0
            init = np.asarray(plan["x0"][src] if name == "x" else plan["y0"][src], f32)
            got = A["samples"][name][c, 0]
            jit = plan["jitter"] if name in plan["jitter_keys"] else None
            how = ("multi" if plan["multi"] else "replicated") + "/" + str(jit)
            if jit is None:
                if not np.array_equal(got, init):
                    V.add("initial-values", "first-sample/" + how, f"{name} chain {c}: first recorded sample {got.tolist()} != supplied {init.tolist()}")
            elif jit == "shift":
                if not np.array_equal(got, init + f32(plan["delta"])):
                    V.add("initial-values", "first-sample/" + how, f"{name} chain {c}: first recorded sample {got.tolist()} != supplied {init.tolist()} + {plan['delta']}")
            else:
                if np.any(np.abs(got.astype(np.float64) - init.astype(np.float64)) > plan["delta"] * (1 + 1e-6) + 1e-6):
                    V.add("initial-values", "first-sample/" + how, f"{name} chain {c}: jittered start {got.tolist()} outside {init.tolist()} +- {plan['delta']}")
        jit = plan["jitter"] if name in plan["jitter_keys"] else None
        if jit == "noise":
            noise = np.stack([A["samples"][name][c, 0].astype(np.float64) - np.asarray(plan["x0"][c if plan["multi"] else 0] if name == "x" else plan["y0"][c if plan["multi"] else 0], np.float64) for c in range(C)])
            for c1 in range(C):
                for c2 in range(c1 + 1, C):
                    if np.allclose(noise[c1], noise[c2], atol=1e-6):
                        V.add("initial-values", "jitter-shared-across-chains", f"{name}: chains {c1} and {c2} received the same jitter noise {noise[c1].tolist()}")
            counters["probe.noise_jitter"] = 1
    # chains driven by distinct keys: same start, first acceptance probabilities differ
    if not plan["multi"] and plan["jitter"] is None and T:
        ap = A["infos"]["kernel_00"]["acceptance_prob"][:, 0]
        for c1 in range(C):
            for c2 in range(c1 + 1, C):
                if ap[c1] == ap[c2]:
                    V.add("distinct-keys", "chains", f"chains {c1} and {c2} started at the mode made the same first proposal (acceptance prob {ap[c1]})")
        counters["probe.same_start_chains_compared"] = 1
    # perturbing one chain's start leaves the others untouched
    if plan["perturb"] is not None:
        j = plan["perturb"]
        x0 = copy.deepcopy(plan["x0"])
        y0 = list(plan["y0"])
        x0[j] = [v + 0.75 for v in x0[j]]
        y0[j] = y0[j] - 0.5
        P = run_rw(plan, x0=x0, y0=y0)
        others = [c for c in range(C) if c != j]
        for part in ("samples", "infos", "kstates"):
            a = jax.tree_util.tree_map(lambda v: v[others], A[part])
            p = jax.tree_util.tree_map(lambda v: v[others], P[part])
            if tree_digest(a) != tree_digest(p):
                V.add("chain-independence", part, f"changing the initial value of chain {j} changed {part} of chains {others}")
        if np.array_equal(P["samples"]["x"][j], A["samples"]["x"][j]):
            V.add("chain-independence", "perturbed-chain-unchanged", f"chain {j} ignores its own initial value")
        counters["probe.perturbed_twin"] = 1
    log.add("rw", tree_digest(A["samples"]), tree_digest(A["infos"]))
    counters["probe.multi_chain_states_via_builder"] = int(plan["multi"])
    counters["probe.int_vs_key"] = int(plan["seed_as_key"])
    return T * C


def execute(plan: dict) -> dict:
    V = Violations("C10")
    log = EventLog()
    counters: dict = {}
    if plan["sub"] == "probe":
        sim = exec_probe(plan, V, log, counters)
        sig = sha(canon([plan["chains"], plan["chunk"], plan["via"], len(plan["kernels"]), plan["epochs0"], [o[0] for o in plan["script"]], plan["qgen"]]))[:16]
    else:
        sim = exec_rw(plan, V, log, counters)
        sig = sha(canon([plan["chains"], plan["dim"], plan["multi"], plan["jitter"], plan["jitter_keys"], plan["epochs"], plan["perturb"] is not None, plan["seed_as_key"], plan["kernel_split"]]))[:16]
    if plan.get("xproc") and not V.items:
        mine, other = log.digest(), other_process_digest(plan)
        counters["probe.repeated_in_another_interpreter"] = 1
        if mine != other:
            V.add("reproducible", "another-interpreter-process", f"the same seed, model, kernels and schedule give event-log digest {mine} here and {other} in a fresh interpreter with PYTHONHASHSEED={plan['xproc']}")
    return {
        "violations": V.items,
        "digest": log.digest(),
        "tail": log.tail,
        "sig": sig,
        "nontrivial": sim > 0 or bool(V.items),
        "counters": counters,
        "simtime": sim,
        "subbatch": plan["sub"],
    }

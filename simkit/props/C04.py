"""C04 — every built-in kernel leaves the target distribution invariant (world S, exact-draw design)."""

from __future__ import annotations

import copy

import jax
import jax.numpy as jnp
import numpy as np
import tensorflow_probability.substrates.jax.bijectors as tfb
import tensorflow_probability.substrates.jax.distributions as tfd
from scipy import special, stats

import liesel.goose as gs
import liesel.model as lsl
from liesel.goose.epoch import EpochConfig, EpochType
from liesel.goose.kernel_sequence import KernelSequence
from liesel.goose.mh_kernel import MHProposal
from simkit import stat_world as S
from simkit.core import EventLog, SutError, Violations, canon, sha

RUN_CAP_S = 1200
F64 = np.float64
P_FALSE = 1e-12

REG_KERNELS = ["rw", "mh_asym", "mh_indep", "iwls", "iwls_user", "hmc", "nuts", "gibbs_conj", "seq_iwls_rw", "seq_nuts_gibbs", "seq_rw_hmc_mh", "seq_rw_rw"]
LS_KERNELS = ["ls_nuts", "ls_iwls_rw", "ls_rw_gibbs", "ls_hmc"]


def gen_plan(rng, tier: str, idx: int) -> dict:
    quick = tier == "quick"
    C = 8192 if quick else rng.choice([8192, 16384])
    k = rng.choice([1, 3, 10] if quick else [1, 3, 10, 25])
    epochs = [[rng.choice([3, 4]), k]] if rng.random() < 0.6 or k < 2 else [[3, k // 2], [4, k - k // 2]]
    slot = idx % 16
    if slot < 12:
        kern = REG_KERNELS[slot]
        fam = "gaussian" if kern in ("gibbs_conj", "seq_nuts_gibbs") else rng.choice(["gaussian", "logistic", "poisson"])
        p = 2 if kern.startswith("seq") else rng.choice([1, 2])
        if kern == "seq_rw_hmc_mh":
            p = 3
        if kern == "seq_rw_rw":
            fam, epochs = "gaussian", [[4, 10]]
        if kern == "iwls_user":
            # the user information depends on the kernel's own position; give the chain enough
            # transitions for a wrong backward density to move the law beyond the thresholds
            p, epochs = 1, [[4, 10]]
            fam = rng.choice(["gaussian", "logistic"])
        return {"model": "regression", "family": fam, "kernel": kern, "p": p, "n": rng.randint(4, 10), "tau": rng.choice([0.7, 1.0, 1.5]),
                "sigma": rng.choice([0.7, 1.0]), "data_seed": rng.randrange(10**6), "liesel": kern in ("rw", "iwls", "nuts", "hmc", "seq_iwls_rw") and rng.random() < 0.5,
                "step": rng.choice([0.4, 0.8, 1.2]), "chains": C, "epochs": epochs, "seed": rng.randrange(2**31)}
    kern = LS_KERNELS[slot - 12]
    return {"model": "locscale", "kernel": kern, "n": rng.randint(4, 10), "tau": rng.choice([1.0, 2.0]), "a": rng.choice([3.0, 4.0]), "b": rng.choice([2.0, 3.0]),
            "step": rng.choice([0.3, 0.6]), "chains": C, "epochs": epochs, "seed": rng.randrange(2**31)}


def shrink_candidates(plan):
    if plan["chains"] > 8192:
        p = copy.deepcopy(plan)
        p["chains"] = 8192
        yield p
    if len(plan["epochs"]) > 1:
        p = copy.deepcopy(plan)
        p["epochs"] = [[4, sum(e[1] for e in plan["epochs"])]]
        yield p
    if plan.get("liesel"):
        p = copy.deepcopy(plan)
        p["liesel"] = False
        yield p


# ---------------------------------------------------------------------------- statistics


class Stats:
    def __init__(self, V, n, label):
        self.V, self.n, self.label = V, n, label
        self.count = 0
        self.worst = 0.0

    def known(self, name, values, mean, var, b=1.0):
        """values: per-chain g(u) with known expectation and variance under invariance."""
        t = S.bernstein_t(self.n, var, b, P_FALSE)
        dev = float(np.mean(values) - mean)
        self.count += 1
        self.worst = max(self.worst, abs(dev) / t)
        if abs(dev) > t:
            self.V.add("invariance", f"{self.label}/{name.split('[')[0]}",
                       f"{name}: mean over {self.n} independent chains is {np.mean(values):.5f}, exactly {mean:.5f} under invariance; |deviation| {abs(dev):.5f} exceeds the Bernstein bound {t:.5f} (false-alarm probability <= {P_FALSE})")

    def paired(self, name, after, before):
        """Bounded functional of (theta, y) in [0, 1] with unknown expectation: after - before has mean 0."""
        z = after - before
        t = S.bernstein_t(self.n, 1.0, 1.0, P_FALSE)
        dev = float(np.mean(z))
        self.count += 1
        self.worst = max(self.worst, abs(dev) / t)
        if abs(dev) > t:
            self.V.add("invariance", f"{self.label}/paired-{name.split('[')[0]}",
                       f"{name}: mean of g(theta_k, y) - g(theta_0, y) over {self.n} chains is {dev:.5f}, 0 under invariance; bound {t:.5f}")

    def pit(self, name, u):
        u = np.clip(np.asarray(u, F64), 0.0, 1.0)
        self.known(f"{name}:u", u, 0.5, 1 / 12)
        self.known(f"{name}:|u-1/2|", np.abs(u - 0.5), 0.25, 1 / 48, 0.5)
        self.known(f"{name}:u^2", u**2, 1 / 3, 4 / 45)
        for m in range(10):
            ind = ((u >= m / 10) & (u < (m + 1) / 10)).astype(F64)
            self.known(f"{name}:bin[{m}]", ind, 0.1, 0.09)


# ---------------------------------------------------------------------------- regression family


def reg_kernels(plan, M, iface, liesel):
    kern, s, p = plan["kernel"], plan["step"], plan["p"]
    post_sd = 1.0 / np.sqrt(M.n / 2.0 + 1.0 / M.tau**2)
    st = float(s * post_sd * 2)

    def val(ms, k):
        return ms[f"{k}_value"].value if liesel else ms[k]

    def mh_asym(keys):
        def prop(key, ms, step):
            pos, corr = {}, 0.0
            for i, k in enumerate(keys):
                cur = val(ms, k)
                z = jax.random.normal(jax.random.fold_in(key, i), jnp.shape(cur))
                new = cur + step * (z + 0.3)
                # q(x'|x) = N(x + 0.3 step, step^2):  log q(x|x') - log q(x'|x)
                corr = corr + jnp.sum((-((cur - new - 0.3 * step) ** 2) + (new - cur - 0.3 * step) ** 2) / (2 * step**2))
                pos[k] = new
            return MHProposal(pos, corr)
        return gs.MHKernel(keys, prop, initial_step_size=st)

    def mh_indep(keys):
        v = (1.3 * M.tau) ** 2
        def prop(key, ms, step):
            pos, corr = {}, 0.0
            for i, k in enumerate(keys):
                cur = val(ms, k)
                new = jnp.sqrt(v) * jax.random.normal(jax.random.fold_in(key, i), jnp.shape(cur))
                corr = corr + jnp.sum(-0.5 * cur**2 / v) - jnp.sum(-0.5 * new**2 / v)
                pos[k] = new
            return MHProposal(pos, corr)
        return gs.MHKernel(keys, prop, initial_step_size=st)

    def gibbs_conj(keys):
        X = jnp.asarray(M.X)
        def fn(key, ms):
            full = jnp.concatenate([jnp.atleast_1d(val(ms, k)) for k in all_keys])
            y = val(ms, "y")
            # coordinates owned by this kernel
            start = 0
            idx = []
            for k in all_keys:
                n_k = int(np.prod(jnp.shape(val(ms, k)))) or 1
                if k in keys:
                    idx += list(range(start, start + n_k))
                start += n_k
            ks = jax.random.split(key, len(idx))
            for j, kk in zip(idx, ks):
                xj = X[:, j]
                v = 1.0 / (jnp.sum(xj**2) / M.sigma**2 + 1.0 / M.tau**2)
                r = y - X @ full + xj * full[j]
                m = v * jnp.sum(xj * r) / M.sigma**2
                full = full.at[j].set(m + jnp.sqrt(v) * jax.random.normal(kk))
            out, start = {}, 0
            for k in all_keys:
                shp = jnp.shape(val(ms, k))
                n_k = int(np.prod(shp)) or 1
                if k in keys:
                    out[k] = full[start:start + n_k].reshape(shp)
                start += n_k
            return out
        return gs.GibbsKernel(keys, fn)

    A = np.eye(p) * (M.n / 2.0 + 1 / M.tau**2)
    cholA = jnp.asarray(np.linalg.cholesky(A), jnp.float32)
    single = {
        "rw": lambda keys: gs.RWKernel(keys, initial_step_size=st),
        "mh_asym": mh_asym, "mh_indep": mh_indep,
        "iwls": lambda keys: gs.IWLSKernel(keys, initial_step_size=min(0.95, s + 0.1)),  # never exactly 1: s/2 == s^2/2 there
        # user-supplied information that depends on the kernel's own position
        "iwls_user": lambda keys: gs.IWLSKernel(
            keys, chol_info_fn=lambda ms: cholA * jnp.exp(0.9 * jnp.tanh(jnp.atleast_1d(val(ms, keys[0]))[0])), initial_step_size=1.0),
        "hmc": lambda keys: gs.HMCKernel(keys, initial_step_size=st * 0.7, num_integration_steps=3),
        "nuts": lambda keys: gs.NUTSKernel(keys, initial_step_size=st * 0.7, max_treedepth=3),
        "gibbs_conj": gibbs_conj,
    }
    if kern in single:
        all_keys = ["beta"]
        return [single[kern](["beta"])], None
    if kern == "seq_iwls_rw":
        all_keys = ["b0", "b1"]
        return [single["iwls"](["b0"]), single["rw"](["b1"])], 1
    if kern == "seq_nuts_gibbs":
        all_keys = ["b0", "b1"]
        return [single["nuts"](["b0"]), gibbs_conj(["b1"])], 1
    if kern == "seq_rw_rw":
        # two kernels of the same family on blocks of the same shape: they must not share randomness
        all_keys = ["b0", "b1"]
        return [single["rw"](["b0"]), single["rw"](["b1"])], 1
    all_keys = ["b0", "b1"]
    return [single["rw"](["b0"]), single["hmc"](["b1"]), single["mh_asym"](["b0"])][: 3], 1


def liesel_regression_split(M, split):
    """Liesel graph with the coefficient vector split into two parameter variables."""
    tau = jnp.float32(M.tau)
    k = split
    b0 = lsl.Var(jnp.zeros(k, jnp.float32) if k > 1 else jnp.float32(0.0), lsl.Dist(tfd.Normal, loc=jnp.float32(0.0), scale=tau), name="b0")
    b1 = lsl.Var(jnp.zeros(M.p - k, jnp.float32) if M.p - k > 1 else jnp.float32(0.0), lsl.Dist(tfd.Normal, loc=jnp.float32(0.0), scale=tau), name="b1")
    b0.parameter = b1.parameter = True
    X = lsl.Var(jnp.asarray(M.X), name="X")
    eta = lsl.Var(lsl.Calc(lambda X_, a, b: X_ @ jnp.concatenate([jnp.atleast_1d(a), jnp.atleast_1d(b)]), X, b0, b1), name="eta")
    if M.family == "gaussian":
        dist = lsl.Dist(tfd.Normal, loc=eta, scale=jnp.float32(M.sigma))
    elif M.family == "logistic":
        dist = lsl.Dist(lambda logits: tfd.Bernoulli(logits=logits, dtype=jnp.float32), logits=eta)
    else:
        dist = lsl.Dist(tfd.Poisson, log_rate=eta)
    y = lsl.Var(jnp.zeros(M.n, jnp.float32), dist, name="y")
    y.observed = True
    return lsl.GraphBuilder().add(y).build_model()


def run_regression(plan, V, log, counters):
    M = S.Regression(plan["family"], plan["n"], plan["p"], plan["tau"], plan["sigma"], plan["data_seed"], 0.7)
    rs = np.random.RandomState(plan["seed"] % 2**31)
    C, p = plan["chains"], plan["p"]
    beta0 = M.sample_prior(rs, C)
    y = M.sample_y(rs, beta0)
    liesel = bool(plan.get("liesel"))
    split = 1 if plan["kernel"].startswith("seq") else None
    if liesel:
        model = M.liesel_model() if split is None else liesel_regression_split(M, split)
        iface = gs.LieselInterface(model)
        base = jax.tree_util.tree_map(lambda v: jnp.stack([jnp.asarray(v)] * C), model.state)
    else:
        iface, _ = M.dict_interface(split)
    kernels, split_at = reg_kernels(plan, M, iface, liesel)
    if split is None:
        pos0 = {"beta": jnp.asarray(beta0, jnp.float32), "y": jnp.asarray(y, jnp.float32)}
        tracked = ["beta"]
    else:
        b0 = beta0[:, 0] if split == 1 else beta0[:, :split]
        b1 = beta0[:, split] if p - split == 1 else beta0[:, split:]
        pos0 = {"b0": jnp.asarray(b0, jnp.float32), "b1": jnp.asarray(b1, jnp.float32), "y": jnp.asarray(y, jnp.float32)}
        tracked = ["b0", "b1"]
    states = jax.vmap(iface.update_state)(pos0, base) if liesel else pos0
    for i, k in enumerate(kernels):
        k.identifier = f"kernel_{i:02d}"
        k.set_model(iface)
    cfgs = [EpochConfig(EpochType.INITIAL_VALUES, 1, 1, None)] + [EpochConfig(EpochType(t), d, d, None) for t, d in plan["epochs"]]
    import math

    chunk = math.gcd(*[d for _, d in plan["epochs"]])
    try:
        eng = gs.Engine(seeds=jax.random.split(jax.random.PRNGKey(plan["seed"]), C), model_states=states, kernel_sequence=KernelSequence(kernels),
                        epoch_configs=cfgs, jitted_sample_duration=chunk, model=iface, position_keys=tracked, show_progress=False)
        eng.sample_all_epochs()
        smp = res_samples(eng)
    except Exception as e:
        raise SutError(f"engine|{type(e).__name__}|{plan['kernel']}|{e}") from e
    if split is None:
        bk = np.asarray(smp["beta"], F64)[:, -1].reshape(C, p)
        b_first = np.asarray(smp["beta"], F64)[:, 0].reshape(C, p)
    else:
        bk = np.concatenate([np.asarray(smp["b0"], F64)[:, -1].reshape(C, -1), np.asarray(smp["b1"], F64)[:, -1].reshape(C, -1)], axis=1)
        b_first = np.concatenate([np.asarray(smp["b0"], F64)[:, 0].reshape(C, -1), np.asarray(smp["b1"], F64)[:, 0].reshape(C, -1)], axis=1)
    if not np.allclose(b_first, beta0.astype(np.float32), rtol=1e-6, atol=1e-6):
        V.add("harness", "initial-values", "the first recorded sample is not the exact draw that was supplied")
    label = f"{plan['kernel']}/{plan['family']}" + ("/liesel" if liesel else "/dict")
    St = Stats(V, C, label)
    moved = float(np.mean(np.any(bk != beta0.astype(np.float32), axis=1)))
    counters["probe.fraction_of_chains_moved_x1000"] = int(1000 * moved)
    for j in range(p):
        St.pit(f"prior-PIT beta[{j}]", stats.norm.cdf(bk[:, j] / M.tau))
    if p >= 2:
        u0, u1 = stats.norm.cdf(bk[:, 0] / M.tau), stats.norm.cdf(bk[:, 1] / M.tau)
        St.known("prior-PIT product u0*u1", u0 * u1, 0.25, 7 / 144)
    if plan["family"] == "gaussian":
        # exact conjugate posterior N(m, Sg)
        P = M.X64.T @ M.X64 / M.sigma**2 + np.eye(p) / M.tau**2
        Sg = np.linalg.inv(P)
        m = (y @ M.X64 / M.sigma**2) @ Sg
        for j in range(p):
            St.pit(f"posterior-PIT beta[{j}]", stats.norm.cdf((bk[:, j] - m[:, j]) / np.sqrt(Sg[j, j])))
        if p >= 2:
            L = np.linalg.cholesky(Sg)
            zk = np.linalg.solve(L, (bk - m).T).T
            St.known("posterior whitened product z0*z1 (tanh)", np.tanh(zk[:, 0]) * np.tanh(zk[:, 1]), 0.0, 0.16, 1.0)
    # dependence between parameters and data: bounded joint functionals, paired with the exact draw
    for j in range(p):
        Tj = np.tanh((y * M.X64[:, j]).sum(axis=1) / np.sqrt(M.n))
        St.paired(f"joint beta[{j}] x data", 0.5 * (1 + np.tanh(bk[:, j]) * Tj), 0.5 * (1 + np.tanh(beta0[:, j]) * Tj))
    counters["statistics_tested"] = St.count
    counters["worst_deviation_over_bound_x1000"] = int(1000 * St.worst)
    log.add("reg", plan["kernel"], round(St.worst, 4), round(moved, 4))
    return C * sum(d for _, d in plan["epochs"])


def res_samples(eng):
    return {k: np.asarray(v) for k, v in eng.get_results().get_samples().items()}


# ---------------------------------------------------------------------------- location-scale family (transformed scale)


def run_locscale(plan, V, log, counters):
    n, tau, a, b, C = plan["n"], plan["tau"], plan["a"], plan["b"], plan["chains"]
    rs = np.random.RandomState(plan["seed"] % 2**31)
    mu0 = rs.normal(size=C) * tau
    s20 = b / rs.gamma(a, size=C)
    y = mu0[:, None] + np.sqrt(s20)[:, None] * rs.normal(size=(C, n))
    mu = lsl.Var(jnp.float32(0.0), lsl.Dist(tfd.Normal, loc=jnp.float32(0.0), scale=jnp.float32(tau)), name="mu")
    mu.parameter = True
    sigma2 = lsl.Var(jnp.float32(1.0), lsl.Dist(tfd.InverseGamma, concentration=jnp.float32(a), scale=jnp.float32(b)), name="sigma2")
    sigma2.parameter = True
    sigma2.transform(tfb.Exp())
    sd = lsl.Var(lsl.Calc(jnp.sqrt, sigma2), name="sd")
    yv = lsl.Var(jnp.zeros(n, jnp.float32), lsl.Dist(tfd.Normal, loc=mu, scale=sd), name="y")
    yv.observed = True
    model = lsl.GraphBuilder().add(yv).build_model()
    iface = gs.LieselInterface(model)
    base = jax.tree_util.tree_map(lambda v: jnp.stack([jnp.asarray(v)] * C), model.state)
    states = jax.vmap(iface.update_state)({"mu": jnp.asarray(mu0, jnp.float32), "sigma2_transformed": jnp.asarray(np.log(s20), jnp.float32), "y": jnp.asarray(y, jnp.float32)}, base)
    s = plan["step"]

    def gibbs_s2(key, ms):
        yy, m = ms["y_value"].value, ms["mu_value"].value
        an = a + n / 2.0
        bn = b + 0.5 * jnp.sum((yy - m) ** 2)
        return {"sigma2_transformed": jnp.log(bn / jax.random.gamma(key, an))}

    k = plan["kernel"]
    if k == "ls_nuts":
        kernels = [gs.NUTSKernel(["mu", "sigma2_transformed"], initial_step_size=s, max_treedepth=3)]
    elif k == "ls_hmc":
        kernels = [gs.HMCKernel(["sigma2_transformed", "mu"], initial_step_size=s * 0.8, num_integration_steps=3)]
    elif k == "ls_iwls_rw":
        kernels = [gs.IWLSKernel(["mu"], initial_step_size=0.8), gs.RWKernel(["sigma2_transformed"], initial_step_size=2 * s)]
    else:
        kernels = [gs.RWKernel(["mu"], initial_step_size=2 * s), gs.GibbsKernel(["sigma2_transformed"], gibbs_s2)]
    for i, kk in enumerate(kernels):
        kk.identifier = f"kernel_{i:02d}"
        kk.set_model(iface)
    import math

    chunk = math.gcd(*[d for _, d in plan["epochs"]])
    cfgs = [EpochConfig(EpochType.INITIAL_VALUES, 1, 1, None)] + [EpochConfig(EpochType(t), d, d, None) for t, d in plan["epochs"]]
    try:
        eng = gs.Engine(seeds=jax.random.split(jax.random.PRNGKey(plan["seed"]), C), model_states=states, kernel_sequence=KernelSequence(kernels),
                        epoch_configs=cfgs, jitted_sample_duration=chunk, model=iface, position_keys=["mu", "sigma2_transformed", "sigma2"], show_progress=False)
        eng.sample_all_epochs()
        smp = res_samples(eng)
    except Exception as e:
        raise SutError(f"engine|{type(e).__name__}|{k}|{e}") from e
    muk = np.asarray(smp["mu"], F64)[:, -1]
    s2k = np.asarray(smp["sigma2"], F64)[:, -1]
    tk = np.asarray(smp["sigma2_transformed"], F64)[:, -1]
    if not np.allclose(np.exp(tk), s2k, rtol=1e-4):
        V.add("transformed-parameter", "image", "sigma2 is not exp(sigma2_transformed) in the stored samples")
    St = Stats(V, C, f"{k}/locscale/liesel-transformed")
    St.pit("prior-PIT mu", stats.norm.cdf(muk / tau))
    St.pit("prior-PIT sigma2", stats.invgamma.cdf(s2k, a, scale=b))
    St.known("prior-PIT product", stats.norm.cdf(muk / tau) * stats.invgamma.cdf(s2k, a, scale=b), 0.25, 7 / 144)
    ybar = y.mean(axis=1)
    ss = ((y - ybar[:, None]) ** 2).sum(axis=1)
    St.paired("joint mu x mean(y)", 0.5 * (1 + np.tanh(muk) * np.tanh(ybar)), 0.5 * (1 + np.tanh(mu0) * np.tanh(ybar)))
    St.paired("joint sigma2 x spread(y)", 0.5 * (1 + np.tanh(np.log(s2k)) * np.tanh(np.log(ss / n))), 0.5 * (1 + np.tanh(np.log(s20)) * np.tanh(np.log(ss / n))))
    # exact conditional PIT of sigma2 given (mu, y) holds after any number of invariant transitions
    St.pit("conditional-PIT sigma2 | mu, y", stats.invgamma.cdf(s2k, a + n / 2, scale=b + 0.5 * ((y - muk[:, None]) ** 2).sum(axis=1)))
    counters["statistics_tested"] = St.count
    counters["worst_deviation_over_bound_x1000"] = int(1000 * St.worst)
    counters["probe.transformed_parameter_model"] = 1
    log.add("ls", k, round(St.worst, 4))
    return C * sum(d for _, d in plan["epochs"])


def execute(plan: dict) -> dict:
    V = Violations("C04")
    log = EventLog()
    counters: dict = {}
    sim = run_regression(plan, V, log, counters) if plan["model"] == "regression" else run_locscale(plan, V, log, counters)
    counters[f"probe.kernel_{plan['kernel']}"] = 1
    return {"violations": V.items, "digest": log.digest(), "tail": log.tail[:10],
            "sig": sha(canon({k: v for k, v in plan.items() if k not in ("seed", "data_seed")}))[:16] + str(plan["seed"] % 1000),
            "nontrivial": sim > 0, "counters": counters, "simtime": sim, "subbatch": plan["model"]}

"""C08 — recorded chains hold exactly the per-iteration states, thinned as configured."""

from __future__ import annotations

import numpy as np

from simkit import engine_world as W
from simkit.core import EventLog, Violations, canon, sha, tree_digest
from simkit.core import SutError
from simkit.props.C07 import failed, run_engine, sut_violation

RUN_CAP_S = 900


def gen_plan(rng, tier: str, idx: int) -> dict:
    eps, g = W.gen_schedule(rng, max_epochs=5, max_dur=24, thin_bias=0.8)
    via = "engine" if rng.random() < 0.8 else "builder"
    if via == "builder":
        epochs0, script = [[0, 1, 1]] + eps, [["all"]]
        chunk = g
    else:
        epochs0, script = W.gen_script(rng, eps)
        chunk = rng.choice(W.divisors(g))
    kernels = W.gen_kernels(rng, max_k=3, hist_p=0.2)
    all_keys = [s["name"] for k in kernels if not k["needs_history"] for s in k["keys"]]
    excluded = []
    if all_keys and rng.random() < 0.35:
        excluded = [rng.choice(all_keys)]
    n_tracked = sum(len(k["keys"]) for k in kernels) - len(excluded)
    included = [x for x in ("trail", "cid") if rng.random() < 0.5]
    if n_tracked == 0 and not included:
        included = ["trail"]
    # a different chunk size for the chunk-twin (engine path only)
    chunk2 = None
    if via == "engine" and len(W.divisors(g)) > 1 and rng.random() < 0.6:
        chunk2 = rng.choice([d for d in W.divisors(g) if d != chunk])
    return {
        "chains": rng.randint(1, 4),
        "chunk": chunk,
        "chunk2": chunk2,
        "seed": rng.randrange(2**31),
        "via": via,
        "kernels": kernels,
        "epochs0": epochs0,
        "script": script,
        "store_ks": rng.random() < 0.5,
        "minimize": rng.random() < 0.2,
        "included": included,
        "excluded": excluded,
        "qgen": rng.choice([0, 1, 1, 2]),
        "idents": W.gen_idents(rng, len(kernels)),
        # F3: kernels report (informational) error codes in some transitions and move all the same,
        # as NUTS does for "maximum tree depth"; what is stored must not depend on them
        "errors": ({str(rng.randrange(len(kernels))): {f"{c},{t}": rng.choice([1, 2, 7]) for c in range(4) for t in range(1, 60) if rng.random() < 0.3}}
                   if rng.random() < 0.4 else {}),
    }


def shrink_candidates(plan):
    for p in W.shrink_candidates_E(plan):
        if p.get("chunk2") is not None:
            import math

            g = 0
            for e in W.all_epochs(p)[1:]:
                g = math.gcd(g, e[1])
            if g % p["chunk2"] != 0 or p["chunk2"] == p["chunk"]:
                p["chunk2"] = None
        if not W.tracked_keys(p):
            continue
        yield p
    if plan.get("chunk2") is not None:
        p = dict(plan)
        p["chunk2"] = None
        yield p


def check_storage(plan, got, ref, V: Violations, counters: dict):
    RE = W.RefEngine(plan)
    C = plan["chains"]
    K = len(plan["kernels"])
    stored = ref["stored"]
    trans = ref["trans"]
    T = len(trans)
    samples = got["samples"]
    exp_keys = W.tracked_keys(plan)
    if sorted(samples.keys()) != sorted(exp_keys):
        V.add("tracked-keys", "set", f"stored keys {sorted(samples.keys())}, expected {sorted(exp_keys)}")
    specs = {s["name"]: (s, k) for k, ks in enumerate(plan["kernels"]) for s in ks["keys"]}
    for name in exp_keys:
        if name not in samples:
            continue
        arr = samples[name]
        if arr.shape[0] != C or arr.shape[1] != len(stored):
            V.add("stored-count", "positions",
                  f"{name}: shape {arr.shape}, expected ({C}, {len(stored)}, ...) for stored iterations at times {[s['t'] for s in stored][:12]}")
            continue
        for c in range(C):
            for i, st in enumerate(stored):
                if name in specs:
                    spec, k = specs[name]
                    if st["kind"] == "init":
                        exp = np.asarray(W.initial_state(plan, RE.cid(c))[name])
                    else:
                        exp = RE.expected_value(spec, k, c, st["t"])
                    want_dtype = np.float32 if spec["dtype"] == "f" else np.int32
                    if arr.dtype != want_dtype:
                        V.add("stored-dtype", "positions", f"{name}: dtype {arr.dtype} expected {want_dtype}")
                elif name == "trail":
                    exp = np.asarray(0 if st["kind"] == "init" else st["trail"][c])
                elif name == "cid":
                    exp = np.asarray(RE.cid(c))
                else:
                    continue
                g = arr[c, i]
                if g.shape != exp.shape:
                    V.add("stored-shape", "positions", f"{name}: element shape {g.shape} expected {exp.shape}")
                    break
                if not np.array_equal(g.astype(np.int64), exp.astype(np.int64)):
                    where = "initial-values" if st["kind"] == "init" else ("trail" if name == "trail" else "iteration")
                    detail = f"{name} chain {c} stored index {i}: got {g.tolist()}, expected {exp.tolist()}"
                    if name in specs and st["kind"] != "init":
                        # attribute the value that was found
                        flat = int(np.asarray(g).reshape(-1)[0])
                        if flat >= 0:
                            t_found = (flat // 32) % 16384
                            detail += f" (value found was produced at global time {t_found}; expected the state after the iteration at time {st['t']}, epoch {st['nth']} thinning {ref['configs'][st['nth']][2]})"
                    V.add("stored-value", where, detail)
                    break
            else:
                continue
            break
    # transition infos: one per transition, unthinned
    for kid, inf in got["infos"].items():
        if inf["error_code"].shape[:2] != (C, T):
            V.add("stored-count", "transition-infos", f"{kid}: {inf['error_code'].shape} expected ({C},{T})")
        elif not plan.get("minimize"):
            exp_t = np.array([tr["t"] for tr in trans])
            if np.any(inf["t"] != exp_t[None, :]):
                V.add("stored-value", "transition-infos", f"{kid}: times {inf['t'][0].tolist()[:10]} expected {exp_t.tolist()[:10]}")
        elif set(inf.keys()) != {"error_code", "acceptance_prob", "position_moved"}:
            V.add("minimize", "fields", f"{kid}: minimised infos carry {sorted(inf.keys())}")
    if T and not got["infos"]:
        V.add("stored-count", "transition-infos", "no transition infos stored")
    # kernel states
    if plan.get("store_ks"):
        if got["kstates"] is None:
            if stored:
                V.add("stored-count", "kernel-states", "kernel states requested but none stored")
        else:
            for k in range(K):
                n = got["kstates"][k]["h"].shape[1]
                if n != T + (1 if stored else 0):
                    V.add("stored-count", "kernel-states", f"kernel {k}: {n} kernel states, expected {T + 1}")
                elif T:
                    exp_n = np.array([tr["cnt"][0][k]["n_trans"] for tr in trans])
                    if np.any(got["kstates"][k]["n_trans"][:, 1:] != exp_n[None, :]):
                        V.add("stored-value", "kernel-states", f"kernel {k}: n_trans sequence {got['kstates'][k]['n_trans'][0, 1:].tolist()[:10]}")
    elif got["kstates"] is not None:
        V.add("stored-count", "kernel-states", "kernel states stored although not requested")
    # generated quantities follow the thinning of the positions
    if plan.get("qgen"):
        if got["gq"] is None:
            if stored:
                V.add("stored-count", "generated-quantities", "none stored")
        else:
            spec0 = plan["kernels"][0]["keys"][0]
            for qid, q in got["gq"].items():
                if q["value"].shape[:2] != (C, len(stored)):
                    V.add("stored-count", "generated-quantities", f"{qid}: {q['value'].shape} expected ({C},{len(stored)})")
                    continue
                for c in range(C):
                    for i, st in enumerate(stored):
                        if st["kind"] == "init":
                            x = np.asarray(W.initial_state(plan, RE.cid(c))[spec0["name"]]).astype(np.int64)
                        else:
                            x = RE.expected_value(spec0, 0, c, st["t"])
                        if not np.array_equal(q["value"][c, i].astype(np.int64), x * 2 + 1):
                            V.add("stored-value", "generated-quantities",
                                  f"{qid} chain {c} index {i}: {q['value'][c, i].tolist()} expected {(x * 2 + 1).tolist()}")
                            break
                    else:
                        continue
                    break
    elif got["gq"] is not None:
        V.add("stored-count", "generated-quantities", "present without generator")
    # posterior accessors
    post_idx = [i for i, st in enumerate(stored) if st["etype"] == 4]
    post_tr = [i for i, tr in enumerate(trans) if tr["etype"] == 4]
    ps = got["post_samples"]
    if isinstance(ps, str):
        if post_idx:
            V.add("posterior-accessor", "samples", f"get_posterior_samples raised {ps} but {len(post_idx)} posterior samples were stored")
    else:
        if not post_idx:
            V.add("posterior-accessor", "samples", "get_posterior_samples returned samples without posterior epoch")
        for name, arr in ps.items():
            if name in samples and samples[name].shape[1] == len(stored):
                if not (arr.shape[1] == len(post_idx) and np.array_equal(arr, samples[name][:, post_idx])):
                    V.add("posterior-accessor", "samples", f"{name}: posterior samples are not the posterior-epoch part (got {arr.shape[1]} expected {len(post_idx)})")
                    break
    pi = got["post_infos"]
    if isinstance(pi, str):
        if post_tr:
            V.add("posterior-accessor", "infos", f"get_posterior_transition_infos raised {pi}")
    else:
        for kid, inf in pi.items():
            full = got["infos"][kid]["error_code"]
            if full.shape[1] == T and not (inf["error_code"].shape[1] == len(post_tr)):
                V.add("posterior-accessor", "infos", f"{kid}: {inf['error_code'].shape[1]} posterior infos, expected {len(post_tr)}")
            elif not plan.get("minimize") and full.shape[1] == T and not np.array_equal(inf["t"], got["infos"][kid]["t"][:, post_tr]):
                V.add("posterior-accessor", "infos", f"{kid}: posterior infos are not the posterior part")


def execute(plan: dict) -> dict:
    V = Violations("C08")
    log = EventLog()
    counters: dict = {}
    ref = W.RefEngine(plan).run()
    try:
        got, _ = run_engine(plan, log)
    except SutError as e:
        sut_violation(V, e)
        return failed(V, log)
    if list(ref["events"]) != [tuple(e) for e in got["events"]]:
        V.add("script-events", "api", f"expected {ref['events']} got {got['events']}")
    check_storage(plan, got, ref, V, counters)
    log.add("samples", tree_digest(got["samples"]))
    log.add("infos", tree_digest(got["infos"]))
    log.add("gq", tree_digest(got["gq"]))
    if plan.get("chunk2"):
        p2 = dict(plan)
        p2["chunk"] = plan["chunk2"]
        try:
            got2, _ = run_engine(p2)
        except SutError as e:
            sut_violation(V, e)
            return failed(V, log)
        for part in ("samples", "post_samples"):
            if tree_digest(got[part]) != tree_digest(got2[part]):
                V.add("chunk-independence", part, f"chunk {plan['chunk']} and chunk {plan['chunk2']} give different {part} for key-ignoring kernels")
        if not plan.get("minimize"):
            for kid in got["infos"]:
                for f in ("h", "t", "tie", "error_code"):
                    if not np.array_equal(got["infos"][kid][f], got2["infos"][kid][f]):
                        V.add("chunk-independence", "infos", f"{kid}.{f} differs between chunk sizes")
        if got["gq"] is not None:
            for qid in got["gq"]:
                if not np.array_equal(got["gq"][qid]["value"], got2["gq"][qid]["value"]):
                    V.add("chunk-independence", "generated-quantities", f"{qid} differs between chunk sizes")
        counters["probe.chunk_twin"] = 1
        log.add("twin", tree_digest(got2["samples"]))
    # reach probes
    cfgs = ref["configs"][1:ref["sampled_epochs"]]
    counters["probe.thinning_gt1"] = int(any(e[2] > 1 for e in cfgs))
    counters["probe.thin_window_straddles_chunk"] = int(any(e[2] > 1 and (plan["chunk"] % e[2] != 0) and e[1] > plan["chunk"] for e in cfgs))
    counters["probe.chunk_without_stored_sample"] = int(any(e[2] > plan["chunk"] for e in cfgs))
    counters["probe.warmup_thinning_not_dividing"] = int(any(e[0] != 4 and e[1] % e[2] for e in cfgs))
    counters["probe.excluded_key"] = int(bool(plan["excluded"]))
    counters["probe.matrix_quantity"] = int(any(len(s["shape"]) == 2 for k in plan["kernels"] for s in k["keys"]))
    counters["probe.multi_kernel"] = int(len(plan["kernels"]) > 1)
    counters["fault.F3_error_codes_configured"] = sum(len(v) for v in plan.get("errors", {}).values())
    counters["stored_samples"] = len(ref["stored"]) * plan["chains"]
    T = len(ref["trans"])
    sig = sha(canon([[e for e in cfgs], plan["chunk"], sorted(W.tracked_keys(plan)), [op[0] for op in plan["script"]]]))[:16]
    return {
        "violations": V.items,
        "digest": log.digest(),
        "tail": log.tail,
        "sig": sig,
        "nontrivial": T > 0,
        "counters": counters,
        "simtime": T * plan["chains"],
        "subbatch": "fault-free",
    }

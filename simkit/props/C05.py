"""C05 — Metropolis-Hastings acceptance rule, incl. zero and undefined ratios (world E, F2/F4/F5)."""

from __future__ import annotations

import copy
import json
import os

import jax
import jax.numpy as jnp
import numpy as np

import liesel.goose as gs
from liesel.goose.epoch import EpochConfig, EpochState, EpochType
from liesel.goose.kernel_sequence import KernelSequence
from liesel.goose.mh import mh_step
from liesel.goose.mh_kernel import MHProposal
from simkit.core import EventLog, SutError, Violations, canon, sha

RUN_CAP_S = 900
F32 = np.float32
SPECIAL = [float("inf"), float("-inf"), float("nan")]
_KEYS = None


def f4_keys():
    """Seeds whose uniform draw is exactly 0.0 (level 0: uniform(PRNGKey(s)); level 1:
    uniform(split(PRNGKey(s))[1]) as RW/MH/IWLS kernels draw it) and seeds with the largest
    draw below 1.  Cached in simkit/f4_keys.json, verified here, searched again if the PRNG
    implementation changed."""
    global _KEYS
    if _KEYS is not None:
        return _KEYS
    path = os.path.join(os.path.dirname(os.path.dirname(os.path.abspath(__file__))), "f4_keys.json")
    with open(path) as fh:
        cache = json.load(fh)

    def u_of(s, level):
        k = jax.random.PRNGKey(s)
        for _ in range(level):
            k = jax.random.split(k)[1]
        return float(jax.random.uniform(k))

    out = {}
    for level in (0, 1):
        zeros = [s for s in cache[str(level)]["zero"] if u_of(s, level) == 0.0]
        if not zeros:
            def batch(start, n, level=level):
                seeds = jnp.arange(start, start + n, dtype=jnp.uint32)

                def f(s):
                    k = jax.random.PRNGKey(s)
                    for _ in range(level):
                        k = jax.random.split(k)[1]
                    return jax.random.uniform(k)

                u = np.asarray(jax.jit(jax.vmap(f))(seeds))
                return [int(s) for s in np.asarray(seeds)[u == 0.0]]

            start = 0
            while not zeros and start < 2**28:
                zeros += batch(start, 2**23)
                start += 2**23
        big = cache[str(level)]["max"][1]
        out[level] = {"zero": zeros, "max": big, "max_u": u_of(big, level)}
    _KEYS = out
    return out


# ---------------------------------------------------------------------------- plans


def gen_val(rng):
    r = rng.random()
    if r < 0.55:
        return round(rng.uniform(-6, 6), 3)
    if r < 0.7:
        return rng.choice([0.0, -0.0, 1e-3, -1e-3, 30.0, -30.0, 90.0, -90.0, -120.0])
    return rng.choice(["inf", "-inf", "nan"])


def gen_plan(rng, tier: str, idx: int) -> dict:
    cases = []
    for _ in range(160):
        cases.append({"cur": gen_val(rng), "prop": gen_val(rng), "corr": rng.choice([0.0, 0.0, gen_val(rng)]),
                      "key": rng.choice(["zero", "zero", "max", "rand", "rand", "rand"]), "seed": rng.randrange(2**31),
                      "x": round(rng.uniform(-3, 3), 3), "xp": round(rng.uniform(-3, 3), 3)})
    plan = {"cases": cases, "eager": rng.sample(range(len(cases)), 6), "kernel": None, "engine": None}
    if idx % 2 == 0:
        plan["kernel"] = {"kind": rng.choice(["rw", "mh", "mh_corr"]), "x0": round(rng.uniform(-2, 2), 3),
                          "density": rng.choice(["point", "nan_everywhere_else", "plus_inf_current"]),
                          "epoch": rng.choice([1, 3, 4]), "step": rng.choice([0.5, 1.0, 2.0])}
    if idx % 4 == 1:
        plan["engine"] = {"kind": rng.choice(["rw", "mh", "mh_indep", "iwls"]), "chains": rng.randint(2, 8), "seed": rng.randrange(2**31),
                          "a": round(rng.uniform(0.5, 2.0), 2), "nan_above": rng.choice([None, round(rng.uniform(0.2, 1.5), 2)]),
                          "step": rng.choice([0.5, 1.0, 2.0, 4.0]), "dur": rng.randint(20, 60), "type": rng.choice([1, 3, 4])}
    return plan


def abbreviate(plan):
    return {"cases": plan["cases"][:5], "n_cases": len(plan["cases"]), "kernel": plan["kernel"], "engine": plan["engine"]}


def shrink_candidates(plan):
    for part in ("engine", "kernel"):
        if plan[part] is not None:
            p = copy.deepcopy(plan)
            p[part] = None
            yield p
    n = len(plan["cases"])
    if n:
        p = copy.deepcopy(plan)
        p["cases"], p["eager"] = [], []
        yield p
    if n > 1:
        for lo, hi in ((0, n // 2), (n // 2, n)):
            p = copy.deepcopy(plan)
            p["cases"] = plan["cases"][lo:hi]
            p["eager"] = [0] if p["cases"] else []
            yield p
    if n == 1 and plan["eager"] == []:
        p = copy.deepcopy(plan)
        p["eager"] = [0]
        yield p


# ---------------------------------------------------------------------------- (i) direct mh_step calls


def fv(v):
    return F32(float(v)) if isinstance(v, str) else F32(v)


MODEL = gs.DictInterface(lambda s: s["lp"])


def one_step(key, cur, prop, corr, x, xp):
    state = {"x": x, "lp": cur}
    proposal = {"x": xp, "lp": prop}
    info, new = mh_step(key, MODEL, proposal, state, corr)
    return info.error_code, info.acceptance_prob, info.position_moved, new["x"], new["lp"], jax.random.uniform(key)


def check_cases(plan, V, log, counters):
    K = f4_keys()
    cases = plan["cases"]
    if not cases:
        return
    keys = []
    for c in cases:
        if c["key"] == "zero":
            s = K[0]["zero"][c["seed"] % len(K[0]["zero"])]
        elif c["key"] == "max":
            s = K[0]["max"]
        else:
            s = c["seed"]
        keys.append(np.asarray(jax.random.PRNGKey(s)))
    arr = lambda f: jnp.asarray(np.array([fv(c[f]) for c in cases], F32))
    args = (jnp.asarray(np.stack(keys)), arr("cur"), arr("prop"), arr("corr"), arr("x"), arr("xp"))
    out = jax.jit(jax.vmap(one_step))(*args)
    code, ap, moved, nx, nlp, u = (np.asarray(o) for o in out)
    rows = [(i, int(code[i]), float(ap[i]), int(moved[i]), nx[i], nlp[i], float(u[i]), "jit+vmap") for i in range(len(cases))]
    for i in plan["eager"]:
        if i < len(cases):
            o = one_step(*(a[i] for a in args))
            rows.append((i, int(o[0]), float(o[1]), int(o[2]), np.asarray(o[3]), np.asarray(o[4]), float(o[5]), "eager"))
    freq_cases: list = []
    for (i, co, a, mv, x_new, lp_new, ui, mode) in rows:
        c = cases[i]
        cur, prop, corr = fv(c["cur"]), fv(c["prop"]), fv(c["corr"])
        with np.errstate(invalid="ignore", over="ignore"):
            ratio = np.float64(prop) - np.float64(cur) + np.float64(corr)
        undefined = bool(np.isnan(ratio))
        with np.errstate(over="ignore"):
            alpha = 0.0 if undefined else float(min(1.0, np.exp(ratio)))
        desc = f"[{mode}] current log-density {c['cur']}, proposed {c['prop']}, log-correction {c['corr']}, uniform draw {ui!r} ({c['key']} key)"
        cls = "undefined-ratio" if undefined else ("alpha=0" if alpha == 0.0 else ("alpha=1" if alpha == 1.0 else "0<alpha<1"))
        counters[f"fault.F5_{cls}"] = counters.get(f"fault.F5_{cls}", 0) + 1
        if c["key"] == "zero":
            counters["fault.F4_uniform_draw_exactly_zero"] = counters.get("fault.F4_uniform_draw_exactly_zero", 0) + 1
            if ui != 0.0:
                V.add("harness", "f4-key", f"key expected to draw 0.0 drew {ui}")
        if any(v in ("inf", "-inf", "nan") for v in (c["cur"], c["prop"], c["corr"])):
            counters["fault.F2_nonfinite_density_or_correction"] = counters.get("fault.F2_nonfinite_density_or_correction", 0) + 1
        if not (0.0 <= a <= 1.0):
            V.add("acceptance-prob-range", cls, f"acceptance_prob = {a}: {desc}")
        elif abs(a - alpha) > 1e-5 + 1e-4 * alpha:
            V.add("acceptance-prob-value", cls, f"acceptance_prob = {a}, min(1, exp(ratio)) = {alpha}: {desc}")
        accepted = bool(mv)
        if alpha == 0.0 and accepted:
            V.add("zero-probability-accepted", f"{cls}/u={'0' if ui == 0.0 else '>0'}", f"a proposal with acceptance probability 0 was accepted: {desc}")
        if alpha == 1.0 and not accepted:
            V.add("certain-proposal-rejected", cls, f"a proposal with acceptance probability 1 was rejected: {desc}")
        if 0.0 < alpha < 1.0 and mode == "jit+vmap" and 0.02 < alpha < 0.98 and len(freq_cases) < 24:
            freq_cases.append((i, alpha, desc))
        if undefined != (co == 90) or co not in (0, 90):
            V.add("error-code", cls, f"error code {co}: {desc}")
        exp_x, exp_lp = (fv(c["xp"]), prop) if accepted else (fv(c["x"]), cur)
        if x_new.tobytes() != np.asarray(exp_x).tobytes() or not (lp_new.tobytes() == np.asarray(exp_lp).tobytes() or (np.isnan(lp_new) and np.isnan(exp_lp))):
            V.add("returned-state", "accepted" if accepted else "rejected",
                  f"moved flag says {'accepted' if accepted else 'rejected'} but the returned state is x={x_new}, lp={lp_new} (input x={c['x']}, proposal x={c['xp']}): {desc}")
    # 0 < alpha < 1: "accepted only if the uniform draw lies below alpha".  Which draw the
    # implementation uses is its own business, so the clause is judged by the acceptance
    # frequency over N independent keys: |freq - alpha| <= t with t from Hoeffding's inequality,
    # false-alarm probability <= 1e-12 per case.
    if freq_cases:
        N = 2048
        t = float(np.sqrt(np.log(2 / 1e-12) / (2 * N)))
        base = jax.random.PRNGKey(plan["cases"][0]["seed"])
        keys_n = jax.random.split(base, N)
        idx = [i for i, _, _ in freq_cases]
        sub = tuple(a[jnp.asarray(idx)] for a in args[1:])
        f = jax.jit(jax.vmap(jax.vmap(one_step, in_axes=(0, None, None, None, None, None)), in_axes=(None, 0, 0, 0, 0, 0)))
        mv_n = np.asarray(f(keys_n, *sub)[2]).astype(float)
        for row, (i, alpha, desc) in enumerate(freq_cases):
            fr = mv_n[row].mean()
            if abs(fr - alpha) > t:
                V.add("acceptance-frequency", "0<alpha<1", f"over {N} independent keys the proposal was accepted with frequency {fr:.3f}, acceptance probability is {alpha:.3f} (bound {t:.3f}): {desc}")
        counters["frequency_cases"] = counters.get("frequency_cases", 0) + len(freq_cases)
        counters["mh_step_calls"] = counters.get("mh_step_calls", 0) + N * len(freq_cases)
    counters["mh_step_calls"] = counters.get("mh_step_calls", 0) + len(rows)
    log.add("cases", code.tolist(), moved.tolist(), ap.tolist())


# ---------------------------------------------------------------------------- (ii) kernels with F4 keys


def make_epoch(t):
    return EpochState(EpochConfig(EpochType(t), 10, 1, None), 1, 5, 1, 4)


def check_kernel(k, V, log, counters):
    K = f4_keys()
    x0 = F32(k["x0"])
    if k["density"] == "point":
        lp = lambda s: jnp.where(s["x"] == x0, jnp.float32(0.0), -jnp.inf)
        what = "zero target density"
    elif k["density"] == "nan_everywhere_else":
        lp = lambda s: jnp.where(s["x"] == x0, jnp.float32(0.0), jnp.nan)
        what = "undefined (NaN) target density"
    else:
        lp = lambda s: jnp.where(s["x"] == x0, jnp.inf, jnp.float32(0.0))
        what = "current density +inf (ratio -inf)"
    model = gs.DictInterface(lp)
    if k["kind"] == "rw":
        ker = gs.RWKernel(["x"], initial_step_size=k["step"])
    elif k["kind"] == "mh":
        ker = gs.MHKernel(["x"], lambda key, s, step: MHProposal({"x": s["x"] + step * jax.random.normal(key)}, jnp.float32(0.0)), initial_step_size=k["step"])
    else:
        ker = gs.MHKernel(["x"], lambda key, s, step: MHProposal({"x": s["x"] + step * (1.0 + jax.random.uniform(key))}, jnp.float32(0.25)), initial_step_size=k["step"])
    ker.set_model(model)
    state = {"x": jnp.float32(x0)}
    ks = ker.init_state(jax.random.PRNGKey(0), state)
    for seed in K[1]["zero"][:3] + [K[1]["max"], 12345]:
        key = jax.random.PRNGKey(seed)
        u = float(jax.random.uniform(jax.random.split(key)[1]))
        out = ker.transition(key, ks, state, make_epoch(k["epoch"]))
        moved = int(out.info.position_moved)
        ap = float(out.info.acceptance_prob)
        code = int(out.info.error_code)
        newx = np.asarray(out.model_state["x"])
        counters["kernel_transitions_direct"] = counters.get("kernel_transitions_direct", 0) + 1
        if u == 0.0:
            counters["fault.F4_uniform_draw_exactly_zero"] = counters.get("fault.F4_uniform_draw_exactly_zero", 0) + 1
        desc = f"{type(ker).__name__} ({k['kind']}) at x0={k['x0']}, every proposal has {what}; uniform draw of this key is {u!r}"
        if moved or newx.tobytes() != np.asarray(x0).tobytes():
            V.add("zero-probability-accepted", f"kernel/{k['density']}/u={'0' if u == 0.0 else '>0'}", f"the kernel moved to {newx} (acceptance_prob {ap}, code {code}): {desc}")
        if ap != 0.0:
            V.add("acceptance-prob-value", f"kernel/{k['density']}", f"acceptance_prob {ap} != 0: {desc}")
        if (code == 90) != (k["density"] == "nan_everywhere_else"):
            V.add("error-code", f"kernel/{k['density']}", f"error code {code}: {desc}")
    log.add("kernel", k)


# ---------------------------------------------------------------------------- (iii) engine runs on F2 densities


def check_engine(e, V, log, counters):
    a, nan_above = F32(e["a"]), e["nan_above"]

    def lp(s):
        x = s["x"]
        base = -0.5 * x**2
        out = jnp.where(jnp.abs(x) < a, base, -jnp.inf)
        if nan_above is not None:
            out = jnp.where((x > nan_above) & (jnp.abs(x) < a), jnp.nan, out)
        return out

    model = gs.DictInterface(lp)
    if e["kind"] == "rw":
        ker = gs.RWKernel(["x"], initial_step_size=e["step"])
    elif e["kind"] == "mh":
        ker = gs.MHKernel(["x"], lambda key, s, step: MHProposal({"x": s["x"] + step * jax.random.normal(key)}, jnp.float32(0.0)), initial_step_size=e["step"], da_tune_step_size=True)
    elif e["kind"] == "mh_indep":
        def prop(key, s, step):
            new = step * jax.random.normal(key)
            # independence proposal N(0, step^2): log q(x|x') - log q(x'|x)
            corr = (-0.5 * (s["x"] / step) ** 2) - (-0.5 * (new / step) ** 2)
            return MHProposal({"x": new}, corr)
        ker = gs.MHKernel(["x"], prop, initial_step_size=e["step"])
    else:
        ker = gs.IWLSKernel(["x"], initial_step_size=min(e["step"], 1.0))
    ker.identifier = "kernel_00"
    ker.set_model(model)
    C = e["chains"]
    x_init = np.linspace(-0.4, 0.15, C).astype(F32) * float(a)
    if nan_above is not None:
        x_init = np.minimum(x_init, F32(nan_above) - F32(0.1))
    try:
        eng = gs.Engine(seeds=jax.random.split(jax.random.PRNGKey(e["seed"]), C), model_states={"x": jnp.asarray(x_init)},
                        kernel_sequence=KernelSequence([ker]), epoch_configs=[EpochConfig(EpochType.INITIAL_VALUES, 1, 1, None), EpochConfig(EpochType(e["type"]), e["dur"], 1, None)],
                        jitted_sample_duration=e["dur"], model=model, position_keys=["x"], show_progress=False)
        eng.sample_all_epochs()
        res = eng.get_results()
    except Exception as ex:
        raise SutError(f"engine|{type(ex).__name__}|{e['kind']}|{ex}") from ex
    x = np.asarray(res.get_samples()["x"])
    ti = res.transition_infos.combine_all().unwrap()["kernel_00"]
    ap, mv, code = np.asarray(ti.acceptance_prob), np.asarray(ti.position_moved).astype(int), np.asarray(ti.error_code)
    before, after = x[:, :-1], x[:, 1:]
    lp_np = np.asarray(jax.vmap(jax.vmap(lambda v: lp({"x": v})))(jnp.asarray(x)))
    la, lb = lp_np[:, 1:], lp_np[:, :-1]
    bad_range = ~((ap >= 0) & (ap <= 1))
    if bad_range.any():
        c, t = np.argwhere(bad_range)[0]
        V.add("acceptance-prob-range", f"engine/{e['kind']}", f"chain {c} transition {t}: acceptance_prob {ap[c, t]}")
    changed = before.view(np.uint32) != after.view(np.uint32)
    if (changed != (mv == 1)).any():
        c, t = np.argwhere(changed != (mv == 1))[0]
        V.add("returned-state", f"engine/{e['kind']}/{'moved-flag-without-move' if mv[c, t] else 'state-changed-on-rejection'}",
              f"chain {c} transition {t}: position_moved={mv[c, t]} but x went {before[c, t]} -> {after[c, t]}")
    zero_acc = (mv == 1) & ~np.isfinite(la) & np.isfinite(lb)
    if zero_acc.any():
        c, t = np.argwhere(zero_acc)[0]
        V.add("zero-probability-accepted", f"engine/{e['kind']}", f"chain {c} transition {t}: moved from x={before[c, t]} (log-density {lb[c, t]}) to x={after[c, t]} with log-density {la[c, t]}")
    if ((mv == 1) & (ap <= 0)).any():
        c, t = np.argwhere((mv == 1) & (ap <= 0))[0]
        V.add("zero-probability-accepted", f"engine/{e['kind']}/ap=0", f"chain {c} transition {t}: accepted with reported acceptance_prob {ap[c, t]}")
    if (((code == 90) & ((mv == 1) | (ap != 0))).any()) or (~np.isin(code, (0, 90))).any():
        c, t = np.argwhere(((code == 90) & ((mv == 1) | (ap != 0))) | ~np.isin(code, (0, 90)))[0]
        V.add("error-code", f"engine/{e['kind']}", f"chain {c} transition {t}: code {code[c, t]}, moved {mv[c, t]}, acceptance_prob {ap[c, t]}")
    counters["engine_transitions"] = counters.get("engine_transitions", 0) + int(mv.size)
    counters["probe.engine_accepts"] = counters.get("probe.engine_accepts", 0) + int((mv == 1).sum())
    counters["probe.engine_rejects"] = counters.get("probe.engine_rejects", 0) + int((mv == 0).sum())
    counters["fault.F2_alpha0_proposals_in_engine"] = counters.get("fault.F2_alpha0_proposals_in_engine", 0) + int(((ap == 0) & (code == 0)).sum())
    counters["fault.F2_nan_ratio_code90_in_engine"] = counters.get("fault.F2_nan_ratio_code90_in_engine", 0) + int((code == 90).sum())
    log.add("engine", e["kind"], int(mv.sum()), int((code == 90).sum()))
    return int(mv.size)


def execute(plan: dict) -> dict:
    V = Violations("C05")
    log = EventLog()
    counters: dict = {}
    check_cases(plan, V, log, counters)
    sim = len(plan["cases"])
    if plan["kernel"] is not None:
        check_kernel(plan["kernel"], V, log, counters)
        sim += 5
    if plan["engine"] is not None:
        sim += check_engine(plan["engine"], V, log, counters)
    return {"violations": V.items, "digest": log.digest(), "tail": log.tail[:20],
            "sig": sha(canon([plan["cases"][:3], plan["kernel"], plan["engine"]]))[:16],
            "nontrivial": sim > 0, "counters": counters, "simtime": sim,
            "subbatch": "direct" + ("+kernel-F4" if plan["kernel"] else "") + ("+engine-F2" if plan["engine"] else "")}

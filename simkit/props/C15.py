"""C15 — built models are complete, acyclic, uniquely named, frozen, and round-trip (world M)."""

from __future__ import annotations

import copy
import io
import os
import shutil
import tempfile

import jax
import jax.numpy as jnp
import numpy as np
import tensorflow_probability.substrates.jax.bijectors as tfb
import tensorflow_probability.substrates.jax.distributions as tfd

import liesel.model as lsl
from liesel.model.nodes import Calc, Dist, InputGroup, Node, TransientNode, Value, Var
from simkit import model_world as M
from simkit.core import EventLog, SutError, Violations, canon, sha
from simkit.props.C01 import assignables

RUN_CAP_S = 900
ROUNDTRIPS = ["pop", "copy_nv", "deepcopy", "save_bytes", "save_file"]
NODE_MUTATORS = ["name", "needs_seed", "add_inputs", "set_inputs"]
CALC_MUTATORS = ["function"]
DIST_MUTATORS = ["at", "distribution", "per_obs"]
VAR_MUTATORS = ["name", "observed", "parameter", "value_node", "dist_node", "transform"]
INVALID = ["dup_node_name", "dup_var_owned_node_name", "dup_var_name", "dup_group_name", "reserved_name", "cycle", "cycle_via_at", "cycle_then_repair", "dropped_model_rebuild"]


def gen_plan(rng, tier: str, idx: int) -> dict:
    spec = M.gen_spec(rng, n_items=(3, 12), seeded_p=0.25 if rng.random() < 0.5 else 0.0, p_dist=0.5)
    # unnamed items and groups
    for it in spec:
        if it["k"] in ("value", "var", "calc", "ident") and rng.random() < 0.2:
            it["unnamed"] = True
    n_groups = rng.choice([0, 0, 1, 2])
    cands = [i for i, it in enumerate(spec) if it["k"] in ("value", "var", "calc")]
    for g in range(n_groups):
        if cands:
            members = {f"m{j}": i for j, i in enumerate(rng.sample(cands, min(len(cands), rng.randint(1, 3))))}
            spec.append({"k": "group", "name": f"g{g}", "members": members, "vk": None})
    A = assignables([it for it in spec if not it.get("unnamed")])
    ops = []
    for _ in range(rng.randint(4, 14)):
        r = rng.random()
        if r < 0.35 and A:
            name, via, vk, shape = rng.choice(A)
            ops.append(["assign", name, via, M.draw_value(rng, vk, shape)])
        elif r < 0.45:
            ops.append(["auto", rng.random() < 0.5])
        elif r < 0.5:
            ops.append(["update"])
        elif r < 0.55:
            ops.append(["set_seed", rng.randrange(2**31)])
        elif r < 0.8:
            ops.append(["roundtrip", rng.choice(ROUNDTRIPS), rng.randrange(10**6)])
        elif r < 0.93:
            ops.append(["mutate", rng.choice(["node", "calc", "dist", "var", "var", "foreign"]), rng.randrange(10**6)])
        elif r < 0.97:
            ops.append(["invalid_build", rng.choice(INVALID)])
        else:
            # the generated program plus one more object whose node name collides with the k-th
            # explicitly named node of the program (free node, or a node owned by a variable)
            ops.append(["invalid_build", "dup_generated", rng.randrange(10**6)])
    return {"spec": spec, "ops": ops, "build_copy": rng.random() < 0.3}


def abbreviate(plan):
    return {"spec": plan["spec"][:5], "n_items": len(plan["spec"]), "ops": plan["ops"], "build_copy": plan["build_copy"]}


def shrink_candidates(plan):
    ops = plan["ops"]
    for i in range(len(ops) - 1, -1, -1):
        p = copy.deepcopy(plan)
        del p["ops"][i]
        yield p
    for i, it in enumerate(plan["spec"]):
        if it.get("unnamed"):
            p = copy.deepcopy(plan)
            del p["spec"][i]["unnamed"]
            yield p
        if it["k"] == "group":
            p = copy.deepcopy(plan)
            del p["spec"][i]
            yield p
        if it.get("seeded"):
            p = copy.deepcopy(plan)
            p["spec"][i]["seeded"] = False
            p["spec"][i]["fn"] = "lin"
            yield p
    if plan["build_copy"]:
        p = copy.deepcopy(plan)
        p["build_copy"] = False
        yield p
    spec = plan["spec"]
    for i in range(len(spec) - 1, -1, -1):
        if spec[i]["k"] == "group":
            continue
        names = M.item_names(spec[i])
        if any(op[0] == "assign" and op[1] in names for op in ops):
            continue
        new = M.drop_item(spec, i)
        if new is None:
            continue
        p = copy.deepcopy(plan)
        p["spec"] = new
        yield p


# ---------------------------------------------------------------------------- oracles


def fn_id(f):
    if isinstance(f, M.CountingFn):
        return ("fn", f.fn, tuple(f.coef))
    if isinstance(f, M.CountingDist):
        return ("dist", f.fam)
    return ("other", getattr(f, "__name__", type(f).__name__))


def structure(model) -> dict:
    """Structural digest source: inputs, names, flags, functions, dist, at — by name."""
    out = {}
    for name, n in model.nodes.items():
        ent = {
            "type": type(n).__name__,
            "name": n.name,
            # the order in which the builder lists the terms of the model totals is not structure
            "inputs": sorted(x.name for x in n.inputs) if name.startswith("_model") else [x.name for x in n.inputs],
            "kw": {k: v.name for k, v in n.kwinputs.items()},
            "needs_seed": n.needs_seed,
            "var": n.var.name if n.var else None,
            "groups": sorted(n.groups),
        }
        if isinstance(n, Dist):
            ent["at"] = n.at.name if n.at is not None else None
            ent["per_obs"] = n.per_obs
            ent["fn"] = fn_id(n.distribution)
        elif isinstance(n, Calc):
            ent["fn"] = fn_id(n.function)
        out["node:" + name] = ent
    for name, v in model.vars.items():
        out["var:" + name] = {
            "name": v.name, "value_node": v.value_node.name, "dist": v.dist_node.name if v.dist_node else None,
            "observed": v.observed, "parameter": v.parameter, "strong": v.strong, "groups": sorted(v.groups),
        }
    return out


def state_plain(model):
    with M.quiet_counters(model):
        s = model.state
    return {k: (v.value, bool(v.outdated)) for k, v in s.items()}


def same_state(a, b):
    if sorted(a) != sorted(b):
        return f"node names differ: {sorted(set(a) ^ set(b))[:6]}"
    for k in a:
        if a[k][1] != b[k][1]:
            return f"{k}: outdated {a[k][1]} vs {b[k][1]}"
        if not M.same_value(a[k][0], b[k][0]):
            if k.startswith("_model_log") and a[k][0] is not None and b[k][0] is not None and np.allclose(
                np.asarray(a[k][0], np.float64), np.asarray(b[k][0], np.float64), rtol=2e-6, atol=1e-5
            ):
                continue  # float32 sum of the same terms in another order
            return f"{k}: value {M.show(a[k][0])} vs {M.show(b[k][0])}"
    return None


def check_structure(model, spec_rt, V, where):
    nodes = dict(model.nodes)
    # names unique and non-empty, keys are the names
    for key, n in nodes.items():
        if not n.name or key != n.name:
            V.add("names", "node", f"{where}: node registered as {key!r} has name {n.name!r}")
    for key, v in model.vars.items():
        if not v.name or key != v.name:
            V.add("names", "var", f"{where}: var registered as {key!r} has name {v.name!r}")
    objs = list(nodes.values())
    if len({id(o) for o in objs}) != len(objs):
        V.add("each-node-once", "duplicate-object", f"{where}: a node object occurs under two names")
    ids = {id(o) for o in objs}
    # closure under inputs
    for n in objs:
        ins = list(n.inputs) + list(n.kwinputs.values()) + ([n.at] if isinstance(n, Dist) and n.at is not None else [])
        for x in ins:
            if id(x) not in ids:
                V.add("closure", type(n).__name__, f"{where}: input {x.name!r} of {n.name!r} is not in the model")
        if n.model is not model:
            V.add("membership", type(n).__name__, f"{where}: node {n.name} does not reference the model it is in")
    # outputs are the exact inverse of inputs
    inv: dict[int, list] = {id(o): [] for o in objs}
    for n in objs:
        ins = list(n.inputs) + list(n.kwinputs.values()) + ([n.at] if isinstance(n, Dist) and n.at is not None else [])
        seen = set()
        for x in ins:
            if id(x) in inv and id(x) not in seen:
                inv[id(x)].append(n)
                seen.add(id(x))
    for n in objs:
        got = list(n.outputs)
        if len({id(o) for o in got}) != len(got):
            V.add("outputs-inverse", "duplicates", f"{where}: outputs of {n.name} contain duplicates")
        if {id(o) for o in got} != {id(o) for o in inv[id(n)]}:
            V.add("outputs-inverse", type(n).__name__,
                  f"{where}: outputs of {n.name} are {[o.name for o in got]}, nodes that list it as input are {[o.name for o in inv[id(n)]]}")
    # everything the program describes is there; extras are only model totals, seeds, constants
    rel = M.node_inputs_from_spec([it for it in spec_rt if it["k"] != "group"])
    for name in rel:
        if name not in nodes:
            V.add("completeness", "missing", f"{where}: node {name} of the program is not in the model")
    for name, n in nodes.items():
        if name in rel or name.startswith("_model"):
            continue
        if not (isinstance(n, Value) and not n.inputs and not n.kwinputs):
            V.add("completeness", "unexpected", f"{where}: unexpected node {name} ({type(n).__name__})")
    for it in spec_rt:
        if it["k"] == "var" or (it["k"] == "calc" and it.get("wrap")):
            vn = it["name"] if it["k"] == "var" else it["wrap"]
            if vn not in model.vars:
                V.add("completeness", "missing-var", f"{where}: var {vn} not in the model")
    for it in spec_rt:
        if it["k"] == "group" and it["name"] not in model.groups():
            V.add("completeness", "missing-group", f"{where}: group {it['name']} not found in the model")


def try_mutation(model, kind, pick, V, counters):
    """F6: a guarded mutator on a member must raise and change nothing."""
    rng = np.random.RandomState(pick)
    nodes = list(model.nodes.values())
    if kind == "node":
        target = nodes[rng.randint(len(nodes))]
        mut = NODE_MUTATORS[rng.randint(len(NODE_MUTATORS))]
    elif kind == "calc":
        c = [n for n in nodes if isinstance(n, Calc)]
        if not c:
            return
        target, mut = c[rng.randint(len(c))], "function"
    elif kind == "dist":
        c = [n for n in nodes if isinstance(n, Dist)]
        if not c:
            return
        target, mut = c[rng.randint(len(c))], DIST_MUTATORS[rng.randint(len(DIST_MUTATORS))]
    elif kind == "foreign":
        # a variable *outside* the model tries to take a Dist node that belongs to the model
        c = [n for n in nodes if isinstance(n, Dist) and not n.name.startswith("_model")]
        if not c:
            return
        bare = [n for n in c if n.var is None]
        target, mut = (bare or c)[rng.randint(len(bare or c))], "adopted_by_foreign_var"
    else:
        c = list(model.vars.values())
        if not c:
            return
        target, mut = c[rng.randint(len(c))], VAR_MUTATORS[rng.randint(len(VAR_MUTATORS))]
    before = canon(structure(model))
    st_before = state_plain(model)
    raised = None
    try:
        if mut == "name":
            target.name = "renamed_by_attack"
        elif mut == "needs_seed":
            target.needs_seed = not target.needs_seed
        elif mut == "add_inputs":
            target.add_inputs(Value(1.0, _name="attack_input"))
        elif mut == "set_inputs":
            target.set_inputs()
        elif mut == "function":
            target.function = lambda *a, **k: jnp.float32(0.0)
        elif mut == "at":
            target.at = None
        elif mut == "distribution":
            target.distribution = tfd.Cauchy
        elif mut == "per_obs":
            target.per_obs = not target.per_obs
        elif mut == "observed":
            target.observed = not target.observed
        elif mut == "parameter":
            target.parameter = not target.parameter
        elif mut == "value_node":
            target.value_node = Value(jnp.float32(1.0))
        elif mut == "dist_node":
            target.dist_node = None
        elif mut == "transform":
            target.transform(tfb.Exp())
        elif mut == "adopted_by_foreign_var":
            w = lsl.Var(jnp.float32(0.5), Dist(tfd.Normal, loc=jnp.float32(0.0), scale=jnp.float32(1.0)), name="foreign_w")
            w.dist_node = target
    except Exception as e:
        raised = e
    counters["fault.F6_mutation_attempts"] = counters.get("fault.F6_mutation_attempts", 0) + 1
    label = f"{'Var' if isinstance(target, Var) else type(target).__name__}.{mut}"
    if raised is None:
        V.add("frozen", f"accepted/{label}", f"{label} on {target.name!r}, a member of a model, was accepted")
    else:
        counters["fault.F6_mutation_rejected"] = counters.get("fault.F6_mutation_rejected", 0) + 1
    after = canon(structure(model))
    if before != after:
        V.add("frozen", f"changed/{label}", f"{label} on {target.name!r} (raised: {raised!r}) changed the structure of the model")
    err = same_state(st_before, state_plain(model))
    if err:
        V.add("frozen", f"state-changed/{label}", f"{label} on {target.name!r}: {err}")


def small_structure_ok(model, V, where):
    nodes = list(model.nodes.values())
    ids = {id(n) for n in nodes}
    for n in nodes:
        outs = list(n.outputs)
        inv = [m for m in nodes if any(x is n for x in (*m.inputs, *m.kwinputs.values(), *( [m.at] if isinstance(m, Dist) and m.at is not None else [])))]
        if {id(o) for o in outs} != {id(o) for o in inv} or len(outs) != len({id(o) for o in outs}):
            V.add("outputs-inverse", where, f"{where}: outputs of {n.name} are {[o.name for o in outs]}, nodes listing it as input: {[o.name for o in inv]}")
        if any(id(o) not in ids for o in outs):
            V.add("outputs-inverse", where + "/foreign", f"{where}: {n.name} has an output that is not in the model")


def rebuild_scenarios(kind, V, counters):
    """Nodes that were wired into a model once (a rejected build, or a model that was dropped without
    pop) are built again: the new model must be complete and usable."""
    import gc

    a = lsl.Var(jnp.float32(1.0), name="a")
    b = lsl.Var(jnp.float32(2.0), name="b")
    c = Calc(lambda x, y: x + y, a, b, _name="c")
    d = Calc(lambda x: x * 2, c, _name="d")
    try:
        if kind == "cycle_then_repair":
            c.set_inputs(a, d)
            try:
                lsl.GraphBuilder().add(d).build_model()
                V.add("invalid-graph-accepted", "cycle", "a cyclic graph was built")
                return
            except Exception:
                pass
            c.set_inputs(a, b)  # repaired in place
            model = lsl.GraphBuilder().add(d).build_model()
        else:
            m0 = lsl.GraphBuilder().add(d).build_model()
            del m0
            gc.collect()
            model = lsl.GraphBuilder().add(d).build_model()
        small_structure_ok(model, V, kind)
        model.vars["a"].value = jnp.float32(5.0)
        got = float(model.nodes["d"].value)
        if got != 14.0 or model.nodes["d"].outdated:
            V.add("roundtrip-behaviour", kind, f"{kind}: after a := 5 the node d holds {got} (outdated={model.nodes['d'].outdated}), expected 14")
    except Exception as e:
        V.add("roundtrip-fails", f"{kind}/{type(e).__name__}", f"{kind}: {e}")
    counters[f"probe.{kind}"] = counters.get(f"probe.{kind}", 0) + 1


def dup_generated(spec, model, k, V, counters):
    """F6: the program of this run, built afresh, plus one object that re-uses the name of one of
    its explicitly named nodes. Every such graph must be rejected, whoever owns the nodes."""
    named = sorted({n for it in spec if not it.get("unnamed") and it["k"] != "group" for n in M.item_names(it) if n} & set(model.nodes))
    if not named:
        return
    clash = named[k % len(named)]
    variant = (k // len(named)) % 3
    b = M.construct(spec)
    gb = lsl.GraphBuilder()
    for i, it in enumerate(spec):
        if it["k"] != "group":
            gb.add(b.obj[i])
    if variant == 0:
        extra, label = Value(jnp.float32(1.0), _name=clash), "free-value"
    elif variant == 1:
        extra, label = lsl.Var(Value(jnp.float32(1.0), _name=clash), name="zz_dup_owner"), "var-owned-value-node"
    else:
        extra = lsl.Var(jnp.float32(1.0), name="zz_dup_owner2")
        extra.var_value_node.name = clash
        label = "var-owned-var-value-node"
    gb.add(extra)
    counters["fault.F6_invalid_builds"] = counters.get("fault.F6_invalid_builds", 0) + 1
    counters["probe.dup_generated_" + label] = counters.get("probe.dup_generated_" + label, 0) + 1
    try:
        gb.build_model()
    except Exception:
        counters["fault.F6_invalid_build_rejected"] = counters.get("fault.F6_invalid_build_rejected", 0) + 1
        return
    V.add("invalid-graph-accepted", f"dup_generated/{label}", f"the program plus a {label} named {clash!r} (a node name already in the program) was built without error")


def invalid_build(kind, V, counters):
    """F6: graphs that must be rejected."""
    if kind in ("cycle_then_repair", "dropped_model_rebuild"):
        return rebuild_scenarios(kind, V, counters)
    a = lsl.Var(jnp.float32(1.0), name="a")
    b = lsl.Var(jnp.float32(2.0), name="b")
    c = Calc(lambda x, y: x + y, a, b, _name="c")
    gb = lsl.GraphBuilder()
    if kind == "dup_node_name":
        d = Calc(lambda x: x * 2, a, _name="c")
        gb.add(c, d)
    elif kind == "dup_var_owned_node_name":
        # all variable names are distinct; a's VarValue node and a_var's value node are both
        # called a_var_value
        a_var = lsl.Var(jnp.float32(3.0), name="a_var")
        d = Calc(lambda x, y: x * y, a, a_var, _name="d")
        gb.add(c, d)
    elif kind == "dup_var_name":
        # only the *variable* names collide; all node names are distinct
        b2 = lsl.Var(Value(jnp.float32(3.0), _name="b2_value"), name="a")
        b2.var_value_node.name = "b2_var_value"
        d = Calc(lambda x, y: x * y, a, b2, _name="d")
        gb.add(c, d)
    elif kind == "dup_group_name":
        lsl.Group("g", m=a)
        lsl.Group("g", m=b)
        gb.add(c)
    elif kind == "reserved_name":
        d = Calc(lambda x: x * 2, a, _name="_model_mine")
        gb.add(c, d)
    elif kind == "cycle":
        d = Calc(lambda x: x * 2, c, _name="d")
        c.set_inputs(a, d)
        gb.add(d)
    elif kind == "cycle_via_at":
        dist = Dist(tfd.Normal, loc=c, scale=jnp.float32(1.0), _name="dd")
        d = Calc(lambda x: x * 2, dist, _name="d")
        dist.at = d
        gb.add(dist)
    counters["fault.F6_invalid_builds"] = counters.get("fault.F6_invalid_builds", 0) + 1
    try:
        gb.build_model()
    except Exception:
        counters["fault.F6_invalid_build_rejected"] = counters.get("fault.F6_invalid_build_rejected", 0) + 1
        return
    V.add("invalid-graph-accepted", kind, f"a graph with {kind} was built without error")


def roundtrip(model, how, V, counters):
    """Returns the reproduced model (or None if the way itself failed)."""
    try:
        if how == "pop":
            nodes, vars_ = model.pop_nodes_and_vars()
            return lsl.GraphBuilder().add(*nodes.values(), *vars_.values()).build_model()
        if how == "copy_nv":
            nodes, vars_ = model.copy_nodes_and_vars()
            return lsl.GraphBuilder().add(*nodes.values(), *vars_.values()).build_model()
        if how == "deepcopy":
            return copy.deepcopy(model)
        if how == "save_bytes":
            buf = io.BytesIO()
            lsl.save_model(model, buf)
            buf.seek(0)
            return lsl.load_model(buf)
        if how == "save_file":
            d = tempfile.mkdtemp(prefix="c15_")
            try:
                path = os.path.join(d, "model.pkl")
                lsl.save_model(model, path)
                return lsl.load_model(path)
            finally:
                shutil.rmtree(d, ignore_errors=True)
    except Exception as e:
        seeded = any(n.needs_seed for n in model.nodes.values()) if len(model.nodes) else None
        V.add("roundtrip-fails", f"{how}/{type(e).__name__}" + ("/seeded-model" if "_seed" in str(e) else ""), f"{how}: {e}")
        return None
    raise ValueError(how)


def execute(plan: dict) -> dict:
    V = Violations("C15")
    log = EventLog()
    counters: dict = {}
    spec = plan["spec"]
    b = M.construct(spec)
    gb = lsl.GraphBuilder()
    for i, it in enumerate(spec):
        if it["k"] != "group":
            gb.add(b.obj[i])
    try:
        model = gb.build_model(copy=plan["build_copy"])
    except Exception as e:
        raise SutError(f"build_model|{type(e).__name__}|?|{e}") from e
    spec_rt = M.read_back_names(spec, b)
    core = [it for it in spec_rt if it["k"] != "group"]
    check_structure(model, spec_rt, V, "build")
    if plan["build_copy"]:
        # the originals stay unfrozen and independent of the model
        s0 = state_plain(model)
        for i, it in enumerate(spec):
            if it["k"] == "value":
                b.node[i].value = jnp.asarray(it["val"], jnp.float32) + 1
        err = same_state(s0, state_plain(model))
        if err:
            V.add("independence", "build-copy", f"assigning to the original nodes changed the copy=True model: {err}")
        if any(n.model is not None for n in b.node.values()):
            V.add("independence", "build-copy-originals-frozen", "originals belong to a model after build_model(copy=True)")
        counters["probe.build_copy"] = 1
    sim = M.ModelSim(core, model, V, log)
    sim.check_coherence("build:#-1")
    n_rt = 0
    for i, op in enumerate(plan["ops"]):
        if V.items:
            break
        kind = op[0]
        if kind in ("assign", "auto", "update", "set_seed"):
            if kind == "assign" and not (op[1] in model.nodes or op[1] in model.vars):
                continue
            sim.apply(i, op)
        elif kind == "mutate":
            try_mutation(model, op[1], op[2], V, counters)
            log.add(i, op)
        elif kind == "invalid_build":
            if op[1] == "dup_generated":
                dup_generated(spec, model, op[2], V, counters)
            else:
                invalid_build(op[1], V, counters)
            log.add(i, op)
        elif kind == "roundtrip":
            how = op[1]
            if how in ("pop", "copy_nv"):
                model.update()
            s0 = state_plain(model)
            st0 = canon(structure(model))
            auto0 = model.auto_update
            new = roundtrip(model, how, V, counters)
            log.add(i, op, new is not None)
            if new is None:
                break
            n_rt += 1
            counters[f"op.roundtrip_{how}"] = counters.get(f"op.roundtrip_{how}", 0) + 1
            if any(it.get("seeded") for it in core):
                counters["probe.roundtrip_with_seeded_node"] = counters.get("probe.roundtrip_with_seeded_node", 0) + 1
            err = same_state(s0, state_plain(new))
            if err:
                V.add("roundtrip-state", how, f"{how}: reproduced model has a different state: {err}")
            if canon(structure(new)) != st0:
                import json

                a, c = json.loads(canon(structure(new))), json.loads(st0)
                diff = [(k, a.get(k), c.get(k)) for k in sorted(set(a) | set(c)) if a.get(k) != c.get(k)][:2]
                V.add("roundtrip-structure", how, f"{how}: structure differs at {diff}")
            check_structure(new, spec_rt, V, f"after-{how}")
            if V.items:
                break
            # independence and identical behaviour: same assignment to both, one at a time
            A = [a for a in assignables(core) if a[0] in new.nodes or a[0] in new.vars]
            if A:
                r = np.random.RandomState(op[2])
                name, via, vk, shape = A[r.randint(len(A))]
                val = jnp.asarray(np.asarray(M.draw_value(__import__("random").Random(op[2]), vk, shape), np.float32))
                new.auto_update = True
                if how != "pop":
                    before_old = state_plain(model)
                if via == "var":
                    new.vars[name].value = val
                else:
                    new.nodes[name].value = val
                if how != "pop":
                    err = same_state(before_old, state_plain(model))
                    if err:
                        V.add("independence", how, f"assigning {name} in the {how} reproduction changed the original: {err}")
                    model.auto_update = True
                    if via == "var":
                        model.vars[name].value = val
                    else:
                        model.nodes[name].value = val
                    err = same_state(state_plain(model), state_plain(new))
                    if err:
                        V.add("roundtrip-behaviour", how, f"after the same assignment {name} := {np.asarray(val).tolist()} original and {how} reproduction differ: {err}")
                # the simulation continues on the reproduction
                node_name = name if via == "node" else f"{name}_value"
                model = new
                sim2 = M.ModelSim(core, model, V, log)
                sim2.ref.inputs = dict(sim.ref.inputs)
                sim2.ref.inputs[node_name] = val
                sim2.ref.seeds = dict(sim.ref.seeds)
                sim2.snaps = []
                sim2.counters = sim.counters
                sim = sim2
                sim.auto = True
                sim.check_coherence(f"after-{how}:#{i}")
            else:
                # nothing assignable: the reproduction is used as it is, so the book-keeping of the
                # original (auto-update setting, seeds, nodes made stale by set_seed / assignments
                # that have not been recomputed yet) carries over - node names are unchanged
                model = new
                sim2 = M.ModelSim(core, model, V, log)
                sim2.ref.inputs = dict(sim.ref.inputs)
                sim2.ref.seeds = dict(sim.ref.seeds)
                sim2.stale = set(sim.stale)
                sim2.auto = sim.auto
                sim2.counters = sim.counters
                sim = sim2
                sim.auto = model.auto_update
    counters.update({k: v for k, v in sim.counters.items()})
    counters["probe.unnamed_items"] = int(any(it.get("unnamed") for it in spec))
    counters["probe.groups"] = int(any(it["k"] == "group" for it in spec))
    counters["probe.seeded_nodes"] = int(any(it.get("seeded") for it in spec))
    return {
        "violations": V.items,
        "digest": log.digest(),
        "tail": log.tail[:40],
        "sig": sha(canon([[it["k"], it.get("fn"), bool(it.get("unnamed")), bool(it.get("seeded"))] for it in spec] + [[o[0], o[1] if o[0] in ("roundtrip", "mutate", "invalid_build") else None] for o in plan["ops"]]))[:16],
        "nontrivial": n_rt > 0 or counters.get("fault.F6_mutation_attempts", 0) > 0,
        "counters": counters,
        "simtime": len(plan["ops"]),
        "subbatch": "F6-rejected-operations" if any(o[0] in ("mutate", "invalid_build") for o in plan["ops"]) else "roundtrips",
    }

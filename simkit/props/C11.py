"""C11 — step-size adaptation follows dual averaging, frozen outside adaptation (world E)."""

from __future__ import annotations

import copy
from dataclasses import dataclass

import jax
import jax.numpy as jnp
import numpy as np

import liesel.goose as gs
from liesel.goose.da import da_finalize, da_init, da_step
from liesel.goose.epoch import EpochConfig, EpochType
from liesel.goose.kernel_sequence import KernelSequence
from liesel.goose.mh_kernel import MHProposal
from simkit.core import EventLog, SutError, Violations, canon, sha

RUN_CAP_S = 900
TYPE = ["INITIAL", "FAST", "SLOW", "BURNIN", "POSTERIOR"]


@dataclass
class KS:
    step_size: float
    error_sum: float = 0.0
    log_avg_step_size: float = 0.0
    mu: float = 0.0


def ref_step(prev: dict, alpha: float, tie: int, target, gamma, kappa, t0) -> dict:
    """One step of Hoffman & Gelman / Stan dual averaging in float64 (t = time_in_epoch + 1)."""
    t = tie + 1
    eta = t ** (-kappa)
    es = prev["error_sum"] + (target - alpha)
    log_eps = prev["mu"] - (np.sqrt(t) / gamma) * es / (t + t0)
    return {"error_sum": es, "step_size": np.exp(log_eps), "log_avg_step_size": eta * log_eps + (1 - eta) * prev["log_avg_step_size"], "mu": prev["mu"]}


def step_close(g, e, rtol, atol):
    """Step sizes are compared on the log scale; beyond float32's range the kernel's number is inf
    (or 0) where the float64 reference is still finite - the same value, not another one."""
    g, e = float(g), float(e)
    if np.isinf(g) and g > 0:
        return e > 3.0e38
    if g == 0.0:
        return 0.0 <= e < 1e-37
    if g > 0 and e > 0 and np.isfinite(e):
        return close(np.log(g), np.log(e), rtol, atol)
    return close(g, e, rtol, atol)


# ---------------------------------------------------------------------------- plans


def gen_direct(rng):
    n = rng.randint(3, 40)
    kind = rng.choice(["uniform", "low", "high", "const", "extreme"])
    acc = []
    for _ in range(n):
        if kind == "uniform":
            acc.append(round(rng.random(), 4))
        elif kind == "low":
            acc.append(round(rng.random() * 0.2, 4))
        elif kind == "high":
            acc.append(round(1 - rng.random() * 0.2, 4))
        elif kind == "const":
            acc.append(0.5)
        else:
            acc.append(rng.choice([0.0, 1.0]))
    return {"eps0": rng.choice([1e-3, 0.01, 0.1, 1.0, 3.0, 10.0]), "target": rng.choice([0.234, 0.5, 0.8, 0.65]),
            "gamma": rng.choice([0.05, 0.1, 0.5]), "kappa": rng.choice([0.75, 0.6, 0.9]), "t0": rng.choice([10, 5, 20]),
            "acc": acc, "restarts": sorted(rng.sample(range(1, n), min(n - 1, rng.randint(0, 2)))), "jit": rng.random() < 0.3}


def gen_plan(rng, tier: str, idx: int) -> dict:
    plan = {"direct": [gen_direct(rng) for _ in range(12)], "engine": None}
    if idx % 2 == 0:
        eps = []
        for _ in range(rng.randint(2, 5)):
            eps.append([rng.choice([1, 1, 2, 2, 3, 4]), rng.choice([10, 20, 30]), 1])
        eps = sorted(eps, key=lambda e: e[0] == 4)
        plan["engine"] = {"kernel": rng.choice(["rw", "mh_tuned", "mh_fixed", "iwls", "hmc", "nuts"]), "chains": rng.randint(1, 3),
                          "seed": rng.randrange(2**31), "epochs": [[0, 1, 1]] + eps, "eps0": rng.choice([0.05, 0.3, 1.0, 2.5]),
                          "target": rng.choice([None, 0.5, 0.7]), "scales": [rng.choice([0.5, 1.0, 3.0]), rng.choice([0.5, 1.0, 3.0])]}
        # F2: an undefined (NaN) target density beyond a radius; the Metropolis-Hastings kernels
        # report such a transition with acceptance probability 0 and error code 90, and that
        # reported probability is what dual averaging has to be fed with
        # the user's dual-averaging constants (half of the runs keep the defaults)
        plan["engine"]["da"] = None if rng.random() < 0.5 else {"da_gamma": rng.choice([0.05, 0.1, 0.5]), "da_kappa": rng.choice([0.75, 0.6, 0.9]), "da_t0": rng.choice([10, 3, 25, 100])}
        nb = rng.choice([None, None, 2.0, 3.5])
        plan["engine"]["nan_beyond"] = nb if plan["engine"]["kernel"] in ("rw", "mh_tuned", "mh_fixed", "iwls") else None
    return plan


def abbreviate(plan):
    return {"direct": plan["direct"][:2], "n_direct": len(plan["direct"]), "engine": plan["engine"]}


def shrink_candidates(plan):
    if plan["engine"] is not None:
        p = copy.deepcopy(plan)
        p["engine"] = None
        yield p
    if plan["direct"]:
        p = copy.deepcopy(plan)
        p["direct"] = []
        yield p
        if len(plan["direct"]) > 1:
            for d in plan["direct"]:
                p = copy.deepcopy(plan)
                p["direct"] = [d]
                yield p
        else:
            d = plan["direct"][0]
            if len(d["acc"]) > 2:
                p = copy.deepcopy(plan)
                p["direct"][0]["acc"] = d["acc"][: len(d["acc"]) // 2]
                p["direct"][0]["restarts"] = [r for r in d["restarts"] if r < len(p["direct"][0]["acc"])]
                yield p
            if d["restarts"]:
                p = copy.deepcopy(plan)
                p["direct"][0]["restarts"] = []
                yield p
    e = plan["engine"]
    if e:
        if e["chains"] > 1:
            p = copy.deepcopy(plan)
            p["engine"]["chains"] = 1
            yield p
        for i in range(len(e["epochs"]) - 1, 0, -1):
            if len(e["epochs"]) > 2:
                p = copy.deepcopy(plan)
                del p["engine"]["epochs"][i]
                yield p


# ---------------------------------------------------------------------------- direct histories


def close(a, b, rtol=2e-5, atol=2e-6):
    a, b = float(a), float(b)
    if a == b or (np.isnan(a) and np.isnan(b)):
        # equal infinities (a step size that underflowed to 0 has log -inf) and an undefined value
        # on both sides: the reference recurrence runs into the same arithmetic
        return True
    if not (np.isfinite(a) and np.isfinite(b)):
        return False
    return abs(a - b) <= atol + rtol * max(abs(a), abs(b))


def check_direct(d, V, counters):
    ks = KS(jnp.float32(d["eps0"]))
    da_init(ks)
    const = (d["target"], d["gamma"], d["kappa"], d["t0"])
    eps0 = np.float64(np.float32(d["eps0"]))
    if not (close(ks.mu, np.log(10 * eps0), 1e-5, 1e-5) and close(ks.log_avg_step_size, np.log(eps0), 1e-5, 1e-5) and float(ks.error_sum) == 0.0):
        V.add("da-init", "fields", f"da_init(step {d['eps0']}): mu {float(ks.mu)}, log_avg {float(ks.log_avg_step_size)}, error_sum {float(ks.error_sum)}")
    tie = 0

    def stepper(ks, a, tie):
        da_step(ks, a, tie, *const)
        return ks

    for i, a in enumerate(d["acc"]):
        if i in d["restarts"]:
            # end of an epoch and start of the next one
            la = float(ks.log_avg_step_size)
            da_finalize(ks)
            if not step_close(ks.step_size, np.exp(la), 1e-5, 1e-6):
                V.add("da-finalize", "averaged-step-size", f"after da_finalize the step size is {float(ks.step_size)}, exp(log-average) = {np.exp(la)}")
            da_init(ks)
            if not (close(ks.mu, np.log(10 * float(ks.step_size)), 1e-5, 1e-5) and float(ks.error_sum) == 0.0 and close(ks.log_avg_step_size, np.log(float(ks.step_size)), 1e-5, 1e-5)):
                V.add("da-restart", "fields", "da_init at the epoch start does not restart from the current step size")
            tie = 0
            counters["probe.epoch_restart_direct"] = counters.get("probe.epoch_restart_direct", 0) + 1
        prev = {k: np.float64(getattr(ks, k)) for k in ("step_size", "error_sum", "log_avg_step_size", "mu")}
        exp = ref_step(prev, np.float64(np.float32(a)), tie, *const)
        # monotonicity twin from the same state
        ks_hi = KS(ks.step_size, ks.error_sum, ks.log_avg_step_size, ks.mu)
        a_hi = min(1.0, a + 0.1 + 0.3 * (i % 3))
        if d["jit"]:
            f = jax.jit(lambda s, e, l, m, a, t: (lambda k: (da_step(k, a, t, *const), (k.step_size, k.error_sum, k.log_avg_step_size, k.mu))[1])(KS(s, e, l, m)))
            out = f(ks.step_size, ks.error_sum, ks.log_avg_step_size, ks.mu, jnp.float32(a), jnp.int32(tie))
            ks = KS(*out)
        else:
            da_step(ks, jnp.float32(a), tie, *const)
        da_step(ks_hi, jnp.float32(a_hi), tie, *const)
        for f_ in ("error_sum", "step_size", "log_avg_step_size", "mu"):
            g, e = np.float64(getattr(ks, f_)), exp[f_]
            ok = step_close(g, e, 1e-4, 1e-4) if f_ == "step_size" else close(g, e, 1e-4, 1e-4)
            if not ok:
                V.add("da-recurrence", f"direct/{f_}", f"da_step #{i} (time_in_epoch {tie}, acceptance {a}, target {d['target']}, gamma {d['gamma']}, kappa {d['kappa']}, t0 {d['t0']}): {f_} = {g}, Hoffman-Gelman recurrence gives {e}")
        if a_hi > a and float(ks_hi.step_size) < float(ks.step_size) * (1 - 1e-6):
            V.add("da-monotone", "direct", f"acceptance {a_hi} > {a} gave a smaller next step size {float(ks_hi.step_size)} < {float(ks.step_size)}")
        tie += 1
        counters["da_steps_direct"] = counters.get("da_steps_direct", 0) + 1


# ---------------------------------------------------------------------------- engine runs


def build_engine(e):
    s0, s1 = np.float32(e["scales"][0]), np.float32(e["scales"][1])

    nb = e.get("nan_beyond")

    def lp(s):
        base = -0.5 * jnp.sum((s["x"] / jnp.asarray([s0, s1])) ** 2)
        if nb is None:
            return base
        return jnp.where(jnp.max(jnp.abs(s["x"])) > nb, jnp.nan, base)

    model = gs.DictInterface(lp)
    kw = {} if e["target"] is None else {"da_target_accept": e["target"]}
    kw.update(e.get("da") or {})
    k = e["kernel"]
    if k == "rw":
        ker = gs.RWKernel(["x"], initial_step_size=e["eps0"], **kw)
    elif k in ("mh_tuned", "mh_fixed"):
        ker = gs.MHKernel(["x"], lambda key, s, step: MHProposal({"x": s["x"] + step * jax.random.normal(key, (2,))}, jnp.float32(0.0)),
                          initial_step_size=e["eps0"], da_tune_step_size=(k == "mh_tuned"), **kw)
    elif k == "iwls":
        ker = gs.IWLSKernel(["x"], initial_step_size=min(e["eps0"], 1.0), **kw)
    elif k == "hmc":
        ker = gs.HMCKernel(["x"], initial_step_size=e["eps0"], num_integration_steps=3, **kw)
    else:
        ker = gs.NUTSKernel(["x"], initial_step_size=e["eps0"], max_treedepth=3, **kw)
    ker.identifier = "kernel_00"
    ker.set_model(model)
    C = e["chains"]
    x0 = jnp.asarray(np.random.RandomState(e["seed"] % 2**31).normal(size=(C, 2)).astype(np.float32))
    eng = gs.Engine(seeds=jax.random.split(jax.random.PRNGKey(e["seed"]), C), model_states={"x": x0}, kernel_sequence=KernelSequence([ker]),
                    epoch_configs=[EpochConfig(EpochType(t), d, th, None) for t, d, th in e["epochs"]], jitted_sample_duration=10, model=model,
                    position_keys=["x"], store_kernel_states=True, show_progress=False)
    return eng, ker


def check_engine(e, V, log, counters):
    try:
        eng, ker = build_engine(e)
        eng.sample_all_epochs()
        res = eng.get_results()
    except Exception as ex:
        raise SutError(f"engine|{type(ex).__name__}|{e['kernel']}|{ex}") from ex
    ks = res.kernel_states.unwrap().combine_all().unwrap()[0]
    F = {f: np.asarray(getattr(ks, f), np.float64) for f in ("step_size", "error_sum", "log_avg_step_size", "mu")}
    imm = np.asarray(ks.inverse_mass_matrix, np.float64) if hasattr(ks, "inverse_mass_matrix") else None
    infos = res.transition_infos.combine_all().unwrap()["kernel_00"]
    acc = np.asarray(infos.acceptance_prob, np.float64)
    codes = np.asarray(infos.error_code)
    counters["probe.nan_density_transitions"] = int((codes == 90).sum())
    const = (ker.da_target_accept, ker.da_gamma, ker.da_kappa, ker.da_t0)
    if e.get("da"):
        # the constants the user configured, not whatever the kernel object stores
        const = (e["target"] if e["target"] is not None else ker.da_target_accept, e["da"]["da_gamma"], e["da"]["da_kappa"], e["da"]["da_t0"])
        counters["probe.user_da_constants"] = 1
    tunes = e["kernel"] != "mh_fixed"
    C = e["chains"]
    idx = 1
    prev_type = 0
    underflowed: set = set()
    for ei, (typ, dur, _) in enumerate(e["epochs"][1:]):
        adapt = typ in (1, 2)
        for c in range(C):
            # restart from the current step size at the epoch start (mu = log(10 eps0))
            last = {f: F[f][c, idx - 1] for f in F}
            eps_in = np.exp(last["log_avg_step_size"]) if idx > 1 else last["step_size"]
            # a chain stuck in the undefined region is fed acceptance 0 at every step and its step
            # size leaves float32's range (< 1e-36: exp() underflows to 0, logs become -inf, 0 * inf
            # NaN). From there on the kernel's float32 numbers and a float64 recurrence differ for
            # reasons that have nothing to do with the rule; the chain is dropped (and counted)
            # from the epoch in which that happens - all earlier epochs have been compared step by step
            if (c in underflowed or not np.isfinite(eps_in) or eps_in < 1e-36 or eps_in > 1e37
                    or np.min(F["step_size"][c, idx:idx + dur]) < 1e-36 or not np.max(F["step_size"][c, idx:idx + dur]) < 1e37):
                underflowed.add(c)
                counters["probe.step_size_left_float32_range"] = counters.get("probe.step_size_left_float32_range", 0) + 1
                continue
            if imm is not None and prev_type == 2 and idx > 1:
                old, new = imm[c, idx - 1], imm[c, idx]
                tr = (lambda m: np.trace(m)) if old.ndim == 2 else (lambda m: np.sum(m))
                eps_in = eps_in * np.sqrt(tr(old) / tr(new))
            mu0 = F["mu"][c, idx]
            if not close(mu0, np.log(10 * eps_in), 2e-4, 2e-4):
                V.add("da-restart", f"{e['kernel']}/{TYPE[prev_type]}->{TYPE[typ]}",
                      f"chain {c} epoch {ei + 1} ({TYPE[typ]}): dual averaging restarted with mu = {mu0} = log(10 x {np.exp(mu0) / 10}), but the step size entering the epoch is {eps_in} "
                      f"(averaged step size of the previous epoch)")
            state = {"error_sum": 0.0, "log_avg_step_size": np.log(eps_in), "mu": mu0, "step_size": eps_in}
            for tie in range(dur):
                cur = {f: F[f][c, idx + tie] for f in F}
                if adapt and tunes:
                    exp = ref_step(state, acc[c, idx - 1 + tie], tie, *const)
                    for f_ in ("error_sum", "log_avg_step_size", "step_size", "mu"):
                        g, x = cur[f_], exp[f_]
                        ok = step_close(g, x, 2e-4, 2e-4) if f_ == "step_size" else close(g, x, 2e-4, 2e-4)
                        if not ok:
                            V.add("da-recurrence", f"{e['kernel']}/{f_}",
                                  f"chain {c} epoch {ei + 1} ({TYPE[typ]}) time_in_epoch {tie}: {f_} = {g}, the recurrence from the previous stored state with acceptance {acc[c, idx - 1 + tie]} gives {x}")
                            break
                    counters["da_steps_engine"] = counters.get("da_steps_engine", 0) + 1
                else:
                    ref_state = state if tie == 0 else {f: F[f][c, idx + tie - 1] for f in F}
                    for f_ in ("step_size", "error_sum", "log_avg_step_size", "mu"):
                        same = (cur[f_] == ref_state[f_]) if tie > 0 else close(cur[f_], ref_state[f_], 2e-5, 2e-6)
                        if not same:
                            V.add("frozen-outside-adaptation", f"{e['kernel']}/{TYPE[typ]}/{f_}",
                                  f"chain {c} epoch {ei + 1} ({TYPE[typ]}{'' if tunes else ', tuning switched off'}) time_in_epoch {tie}: {f_} changed from {ref_state[f_]} to {cur[f_]}")
                            break
                    counters["frozen_steps_engine"] = counters.get("frozen_steps_engine", 0) + 1
                state = cur
        idx += dur
        prev_type = typ
    counters[f"probe.kernel_{e['kernel']}"] = 1
    types = [t for t, _, _ in e["epochs"][1:]]
    counters["probe.adaptation_after_burnin"] = int(any(a == 3 and b in (1, 2) for a, b in zip(types, types[1:])))
    counters["probe.consecutive_adaptation_epochs"] = int(any(a in (1, 2) and b in (1, 2) for a, b in zip(types, types[1:])))
    log.add("engine", e["kernel"], F["step_size"][:, -1].tolist())
    return int(acc.size)


def execute(plan: dict) -> dict:
    V = Violations("C11")
    log = EventLog()
    counters: dict = {}
    for d in plan["direct"]:
        check_direct(d, V, counters)
    sim = sum(len(d["acc"]) for d in plan["direct"])
    log.add("direct", sim)
    if plan["engine"] is not None and not V.items:
        sim += check_engine(plan["engine"], V, log, counters)
    return {"violations": V.items, "digest": log.digest(), "tail": log.tail[:10],
            "sig": sha(canon([plan["direct"][:2], plan["engine"]]))[:16], "nontrivial": sim > 0, "counters": counters, "simtime": sim,
            "subbatch": "direct" + ("+engine-" + plan["engine"]["kernel"] if plan["engine"] else "")}

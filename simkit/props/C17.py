"""C17 — simulate() draws a joint ancestral sample (world M)."""

from __future__ import annotations

import copy

import jax
import jax.numpy as jnp
import numpy as np

from simkit import model_world as M
from simkit.core import EventLog, SutError, Violations, canon, sha

RUN_CAP_S = 900
CONT = ("normal", "gamma", "exponential", "beta", "lognormal", "halfnormal", "invgamma", "mvn3")
TIGHT = 1e-3


def add_tight_links(rng, spec):
    """Children ~ Normal(g(parent), 1e-3) where g goes through cached / transient / weak-var
    intermediates: the child's draw reveals which parent value the distribution saw."""
    parents = [i for i, it in enumerate(spec) if it["k"] == "var" and it.get("dist") and it["dist"]["fam"] in CONT]
    links = []
    for _ in range(rng.randint(1, 3)):
        if not parents:
            break
        p = rng.choice(parents)
        slope = rng.choice([-1, 1]) * rng.uniform(8, 20)
        idx = len(spec)
        mode = rng.choice(["cached", "cached", "transient"])
        wrap = f"v{idx}" if rng.random() < 0.4 else None
        if rng.random() < 0.25:
            # the dependency runs through an InputGroup (as the inputs of class/default
            # bijector transforms do): parent -> InputGroup -> Calc -> child's loc
            spec.append({"k": "igroup", "name": f"n{idx}", "inputs": [{"i": p, "via": rng.choice(["var", "node"])}] if rng.random() < 0.5 else [],
                         "kw": {}, "vk": None})
            if not spec[-1]["inputs"]:
                spec[-1]["kw"] = {"k0": {"i": p, "via": rng.choice(["var", "node"])}}
            idx = len(spec)
            spec.append({"k": "calc", "name": f"n{idx}g", "fn": "group_lin", "coef": [round(rng.uniform(-0.3, 0.3), 3), round(rng.choice([-1, 1]) * rng.uniform(0.2, 0.6), 3)],
                         "inputs": [{"i": idx - 1, "via": "node"}], "mode": mode, "wrap": None, "vk": "real",
                         "shape": spec[p].get("shape", []), "seeded": False})
            wrap = None
        else:
            spec.append({"k": "calc", "name": f"n{idx}", "fn": "lin", "coef": [round(rng.uniform(-2, 2), 3), round(slope, 3)],
                         "inputs": [{"i": p, "via": "var"}], "mode": mode, "wrap": wrap, "vk": "real",
                         "shape": spec[p].get("shape", []), "seeded": False})
        via = "var" if wrap and rng.random() < 0.6 else "node"
        mid = idx
        if rng.random() < 0.35:
            # one more intermediate
            idx2 = len(spec)
            spec.append({"k": "calc", "name": f"n{idx2}", "fn": "lin", "coef": [round(rng.uniform(-1, 1), 3), round(rng.choice([-1, 1]) * rng.uniform(0.8, 1.5), 3)],
                         "inputs": [{"i": mid, "via": via}], "mode": rng.choice(["cached", "transient"]), "wrap": None, "vk": "real",
                         "shape": spec[p].get("shape", []), "seeded": False})
            mid, via = idx2, "node"
        cidx = len(spec)
        shape = spec[p].get("shape", []) if rng.random() < 0.6 else ([3] if rng.random() < 0.5 else spec[p].get("shape", []))
        if rng.random() < 0.25:
            # the child is a transformed variable: x ~ LogNormal(loc, 1e-3) with the default (Exp)
            # bijector, so that the new variable t = log x ~ Normal(loc, 1e-3) and its
            # distribution node gets loc through builder-made InputGroups
            spec.append({"k": "var", "name": f"v{cidx}", "val": M.draw_value(rng, "pos", shape), "vk": "pos", "shape": shape,
                         "role": rng.choice(["param", None]),
                         "dist": {"fam": "lognormal", "args": {"loc": {"i": mid, "via": via}, "scale": {"c": TIGHT}},
                                  "transient": False, "per_obs": True},
                         "transform": {"how": rng.choice(["default", "auto"]), "bij": None, "arg": None},
                         "tight": {"parent": p, "mid": mid}})
            links.append(cidx)
            continue
        spec.append({"k": "var", "name": f"v{cidx}", "val": M.draw_value(rng, "real", shape), "vk": "real", "shape": shape,
                     "role": rng.choice(["obs", "param", None]),
                     "dist": {"fam": "normal", "args": {"loc": {"i": mid, "via": via}, "scale": {"c": TIGHT}},
                              "transient": rng.random() < 0.2, "per_obs": True},
                     "transform": None, "tight": {"parent": p, "mid": mid}})
        links.append(cidx)
        if rng.random() < 0.5:
            parents.append(cidx)
    if rng.random() < 0.6:
        # two variables with literally the same distribution: their draws must be independent
        loc, scale = round(rng.uniform(-2, 2), 3), round(rng.uniform(0.5, 2), 3)
        shape = rng.choice([[], [3]])
        for _ in range(2):
            i = len(spec)
            spec.append({"k": "var", "name": f"v{i}", "val": M.draw_value(rng, "real", shape), "vk": "real", "shape": shape,
                         "role": "param", "dist": {"fam": "normal", "args": {"loc": {"c": loc}, "scale": {"c": scale}},
                                                   "transient": False, "per_obs": True}, "transform": None, "iid": True})
    return links


def gen_plan(rng, tier: str, idx: int) -> dict:
    spec = M.gen_spec(rng, n_items=(3, 10), p_dist=0.8, allow_bare=False, families=[f for f in M.FAMILIES if f != "uniform_lw"], weak_dist_p=0.0)
    add_tight_links(rng, spec)
    dvars = [it["name"] for it in spec if it["k"] == "var" and it.get("dist") and not it.get("transform")]
    skip = []
    for v in dvars:
        if rng.random() < 0.2:
            skip.append(rng.choice([v, f"{v}_log_prob", f"{v}_var_value"]))
    from simkit.props.C01 import assignables

    A = assignables(spec)
    pre = []
    for _ in range(rng.randint(0, 4)):
        name, via, vk, shape = rng.choice(A)
        pre.append(["assign", name, via, M.draw_value(rng, vk, shape)])
    # assignments made *after* the auto-update setting is in place and right before simulate():
    # with auto-update off they are still pending (nothing downstream has been recomputed) when
    # the draw starts - the posterior-predictive idiom "set the parameters, then simulate(skip=...)"
    pending = []
    if rng.random() < 0.5:
        for _ in range(rng.randint(1, 3)):
            name, via, vk, shape = rng.choice(A)
            pending.append(["assign", name, via, M.draw_value(rng, vk, shape)])
        # often make the assigned variable a skipped one, so that its value survives the draw
        for op in pending:
            if rng.random() < 0.6 and op[1] in dvars and op[1] not in skip:
                skip.append(op[1])
    return {"spec": spec, "pre": pre, "auto": rng.random() < 0.5, "seed": rng.randrange(2**31), "skip": skip,
            "pre_auto": rng.random() < 0.5, "pending": pending}


def abbreviate(plan):
    return {"spec": plan["spec"][-5:], "n_items": len(plan["spec"]), "pre": plan["pre"], "auto": plan["auto"], "seed": plan["seed"], "skip": plan["skip"]}


def shrink_candidates(plan):
    for i in range(len(plan["pre"]) - 1, -1, -1):
        p = copy.deepcopy(plan)
        del p["pre"][i]
        yield p
    for i in range(len(plan.get("pending", [])) - 1, -1, -1):
        p = copy.deepcopy(plan)
        del p["pending"][i]
        yield p
    for i in range(len(plan["skip"]) - 1, -1, -1):
        p = copy.deepcopy(plan)
        del p["skip"][i]
        yield p
    spec = plan["spec"]
    for i in range(len(spec) - 1, -1, -1):
        names = M.item_names(spec[i])
        if any(op[1] in names for op in plan["pre"] + plan.get("pending", [])) or any(s_ in names for s_ in plan["skip"]):
            continue
        new = M.drop_item(spec, i)
        if new is None:
            continue
        p = copy.deepcopy(plan)
        p["spec"] = new
        yield p


def prepare(plan, auto: bool):
    b, model = M.build_model(plan["spec"])
    model.auto_update = plan["pre_auto"]
    for op in plan["pre"]:
        v = jnp.asarray(op[3], jnp.float32)
        if op[2] == "var":
            model.vars[op[1]].value = v
        else:
            model.nodes[op[1]].value = v
    model.update()
    model.auto_update = auto
    for op in plan.get("pending", []):
        v = jnp.asarray(op[3], jnp.float32)
        if op[2] == "var":
            model.vars[op[1]].value = v
        else:
            model.nodes[op[1]].value = v
    return model


def inputs_of(model, spec):
    out = {}
    for it in spec:
        if it["k"] == "value":
            out[it["name"]] = np.asarray(model.nodes[it["name"]].value)
        elif it["k"] == "var" and it.get("transform"):
            # the variable that simulate() draws is the new, unconstrained one
            out[it["name"]] = np.asarray(model.vars[f"{it['name']}_transformed"].value)
        elif it["k"] == "var":
            out[it["name"]] = np.asarray(model.vars[it["name"]].value)
    return out


def set_ref_inputs(ref, spec, get_value, get_var):
    for it in spec:
        if it["k"] == "value":
            ref.inputs[it["name"]] = get_value(it["name"])
        elif it["k"] == "var" and it.get("transform"):
            ref.inputs[f"{it['name']}_transformed_value"] = get_var(it["name"], True)
        elif it["k"] == "var":
            ref.inputs[f"{it['name']}_value"] = get_var(it["name"], False)


def do_sim(model, plan):
    try:
        model.simulate(jax.random.PRNGKey(plan["seed"]), skip=plan["skip"])
    except Exception as e:
        raise SutError(f"simulate|{type(e).__name__}|?|{e}") from e


def execute(plan: dict) -> dict:
    V = Violations("C17")
    log = EventLog()
    spec = plan["spec"]
    counters = {}
    mA = prepare(plan, plan["auto"])
    before = inputs_of(mA, spec)
    do_sim(mA, plan)
    A = inputs_of(mA, spec)
    mB = prepare(plan, not plan["auto"])
    do_sim(mB, plan)
    B = inputs_of(mB, spec)
    mC = prepare(plan, plan["auto"])
    do_sim(mC, plan)
    C = inputs_of(mC, spec)
    log.add("A", {k: v.tolist() for k, v in A.items()})
    skipped = set()
    for it in spec:
        if it["k"] == "var" and it.get("dist"):
            n = it["name"]
            if {n, f"{n}_log_prob", f"{n}_var_value"} & set(plan["skip"]):
                skipped.add(n)
    # same seed => same draw
    for k in A:
        if not M.same_value(A[k], C[k]):
            V.add("seed-determines-result", "repeat", f"{k}: two simulations from the same seed and start differ")
    # regardless of auto-update
    for k in A:
        if not M.same_value(A[k], B[k]):
            it = next(x for x in spec if x["name"] == k)
            V.add("auto-update-independence", "tight-child" if it.get("tight") else "var",
                  f"{k}: drawn with auto_update={plan['auto']}: {A[k].tolist()}, with auto_update={not plan['auto']}: {B[k].tolist()} (same seed, same start)")
            break
    # shapes, skipped, drawn
    n_drawn = 0
    for it in spec:
        if it["k"] == "value" or (it["k"] == "var" and not it.get("dist")):
            if not M.same_value(A[it["name"]], before[it["name"]]):
                V.add("non-distributed-input-changed", it["k"], f"{it['name']} has no distribution but was changed by simulate")
        elif it["k"] == "var":
            n = it["name"]
            if A[n].shape != before[n].shape:
                V.add("shape-preserved", it["dist"]["fam"], f"{n}: shape {before[n].shape} became {A[n].shape}")
            if n in skipped:
                if not M.same_value(A[n], before[n]):
                    V.add("skipped-untouched", "var", f"{n} is skipped ({plan['skip']}) but changed")
                counters["probe.skipped_var"] = counters.get("probe.skipped_var", 0) + 1
            else:
                n_drawn += 1
                if it["dist"]["fam"] in CONT and M.same_value(A[n], before[n]):
                    V.add("not-drawn", it["dist"]["fam"], f"{n} is not skipped but kept its value {A[n].tolist()}")
    # identically distributed, unrelated variables must not receive the same draw
    iid = [it["name"] for it in spec if it.get("iid") and it["name"] not in skipped]
    if len(iid) == 2:
        counters["probe.iid_pair_checked"] = 1
        if M.same_value(A[iid[0]], A[iid[1]]):
            V.add("independent-draws", "iid-pair", f"{iid[0]} and {iid[1]} have the same distribution and received the same draw {A[iid[0]].tolist()}")
    # ancestral: tight children sit at the value implied by the *new* parent values
    for mdl, vals, label in ((mA, A, f"auto_update={plan['auto']}"), (mB, B, f"auto_update={not plan['auto']}")):
        ref = M.RefGraph(spec)
        set_ref_inputs(ref, spec, lambda n: jnp.asarray(vals[n]), lambda n, tr: jnp.asarray(vals[n]))
        rv = ref.eval()
        for it in spec:
            if it["k"] == "var" and it.get("tight") and it["name"] not in skipped:
                loc_ref = it["dist"]["args"]["loc"]
                src = spec[loc_ref["i"]]
                loc = np.asarray(rv[src["name"]], np.float64)
                got = np.asarray(vals[it["name"]], np.float64)
                err = np.max(np.abs(got - loc))
                tol = 8 * TIGHT + 1e-5 * (1 + np.max(np.abs(loc)))
                counters["probe.tight_children_checked"] = counters.get("probe.tight_children_checked", 0) + 1
                if err > tol:
                    old_parent = before[spec[it["tight"]["parent"]]["name"]]
                    V.add("ancestral", "child-sees-stale-parent",
                          f"{label}: {it['name']} ~ Normal(loc, {TIGHT}) was drawn as {got.tolist()}, but its loc at the newly drawn "
                          f"ancestors is {loc.tolist()} (|diff| {err:.4g}); parent {spec[it['tight']['parent']]['name']} went from {np.asarray(old_parent).tolist()} to {vals[spec[it['tight']['parent']]['name']].tolist()}")
    # coherent after a subsequent update
    for mdl, vals in ((mA, A), (mB, B)):
        try:
            mdl.update()
        except Exception as e:
            raise SutError(f"update-after-simulate|{type(e).__name__}|?|{e}") from e
        sim = M.ModelSim(spec, mdl, V, EventLog())
        set_ref_inputs(sim.ref, spec, lambda n: mdl.nodes[n].value,
                       lambda n, tr: mdl.vars[f"{n}_transformed" if tr else n].value)
        sim.check_coherence("after-simulate-update:#0")
        od = sim.n_outdated()
        if od:
            V.add("coherent-after-update", "outdated", f"{od[:4]} outdated after simulate + update")
    counters["vars_drawn"] = n_drawn
    counters["probe.auto_update_off"] = 1  # both settings are exercised in every run
    counters["probe.tight_link_via_cached_calc"] = int(any(it.get("tight") and spec[it["tight"]["mid"]]["mode"] == "cached" for it in spec if it["k"] == "var"))
    counters["probe.pending_assignments_before_simulate"] = int(bool(plan.get("pending")))
    counters["probe.tight_link_via_input_group"] = int(any(it.get("tight") and spec[it["tight"]["mid"]].get("fn") == "group_lin" for it in spec if it["k"] == "var"))
    counters["probe.tight_child_transformed"] = int(any(it.get("tight") and it.get("transform") for it in spec if it["k"] == "var"))
    counters["probe.vector_sample_shape"] = int(any(it["k"] == "var" and it.get("dist") and it.get("shape") == [3] for it in spec))
    return {
        "violations": V.items,
        "digest": log.digest(),
        "tail": log.tail[:30],
        "sig": sha(canon([[it["k"], it.get("fn"), it.get("mode"), (it.get("dist") or {}).get("fam")] for it in spec] + [sorted(plan["skip"]), plan["auto"]]))[:16],
        "nontrivial": n_drawn > 0,
        "counters": counters,
        "simtime": 3 * n_drawn,
        "subbatch": "fault-free",
    }

"""C03 — state-passing model interface is pure and equivalent to direct assignment (world I)."""

from __future__ import annotations

import copy
import dataclasses
import warnings
from typing import Any, NamedTuple

import jax
import jax.numpy as jnp
import numpy as np

import liesel.goose as gs
import liesel.model as lsl
from liesel.goose.pytree import register_dataclass_as_pytree
from simkit import model_world as M
from simkit.core import EventLog, SutError, Violations, canon, sha, tree_digest

RUN_CAP_S = 900
MODES = ["eager", "eager", "jit", "vmap", "jit_vmap"]


# ---------------------------------------------------------------------------- plans


def gen_plan(rng, tier: str, idx: int) -> dict:
    if idx % 6 == 5:
        return gen_simple(rng)
    spec = M.gen_spec(rng, n_items=(4, 12), p_dist=0.6, p_transform=0.25, transforms=["instance", "class", "default", "auto"],
                      prefixes=("q", "u"), allow_bare=True)
    # a bare Value node that shares its name with a variable: a position key must resolve to the node
    vars_ = [it for it in spec if it["k"] == "var" and not it.get("transform")]
    vals = [it for it in spec if it["k"] == "value"]
    if vars_ and vals and rng.random() < 0.35:
        rng.choice(vals)["name"] = rng.choice(vars_)["name"]
    A = M.assignable_items(spec)
    # a position key naming both a node and a variable means the node (node name first)
    node_names = {a[0] for a in A if a[1] == "node"}
    A = [a for a in A if not (a[1] == "var" and a[0] in node_names)]
    keysets = []
    for _ in range(rng.randint(1, 3)):
        ks = rng.sample(A, min(len(A), rng.randint(1, 3)))
        # one key per underlying value node
        seen, out = set(), []
        for (name, via, vk, shape) in ks:
            node = name if via == "node" else f"{name}_value"
            if node not in seen:
                seen.add(node)
                out.append([name, via, vk, shape])
        keysets.append(out)
    faults = idx % 3 == 1
    cached = [it["name"] for it in spec if it["k"] == "calc" and it["mode"] == "cached"]
    calls = []
    n_states = 1
    updates = []
    for _ in range(rng.randint(12, 40)):
        r = rng.random()
        if r < 0.6:
            mode = rng.choice(MODES)
            ks = rng.randrange(len(keysets))
            B = rng.randint(2, 3) if "vmap" in mode else 1
            elems = [{"vals": [M.draw_value(rng, k[2], k[3]) for k in keysets[ks]], "state": rng.randrange(n_states)} for _ in range(B)]
            call = ["update", mode, ks, elems]
            if updates and rng.random() < 0.2:
                call = copy.deepcopy(rng.choice(updates))  # exact repetition of an earlier call
                call.append("repeat")
            else:
                updates.append(call)
            calls.append(call)
            n_states += len(call[3])  # a repeated call may have another batch size than the one it replaces
        elif r < 0.75:
            calls.append(["extract", rng.randrange(len(keysets)), rng.randrange(n_states)])
        elif r < 0.88:
            calls.append(["log_prob", rng.randrange(n_states), rng.choice(["eager", "jit"])])
        elif faults and cached:
            calls.append(["arm", rng.choice(cached), rng.randint(1, 2)])
        else:
            calls.append(["user_assign", rng.randrange(len(A)), None])
    for c in calls:
        if c[0] == "user_assign":
            a = A[c[1]]
            c[2] = M.draw_value(rng, a[2], a[3])
    return {"sub": "liesel", "spec": spec, "keysets": keysets, "calls": calls, "faults": faults,
            "iface": "GooseModel" if rng.random() < 0.1 else "LieselInterface", "user_auto": rng.random() < 0.8}


def gen_simple(rng):
    kind = rng.choice(["dict", "dataclass", "dataclass_postinit", "namedtuple"])
    fields = [f"f{i}" for i in range(rng.randint(2, 5))]
    shapes = {f: rng.choice([[], [2], [2, 2]]) for f in fields}
    calls = []
    for _ in range(rng.randint(5, 20)):
        r = rng.random()
        if r < 0.6:
            ks = rng.sample(fields, rng.randint(1, len(fields)))
            calls.append(["update", rng.choice(["eager", "jit"]), ks, [M.draw_value(rng, "real", shapes[k]) for k in ks], rng.randrange(1 + len(calls))])
        elif r < 0.8:
            calls.append(["extract", rng.sample(fields, rng.randint(1, len(fields))), rng.randrange(1 + len(calls))])
        else:
            calls.append(["log_prob", rng.randrange(1 + len(calls))])
    return {"sub": "simple", "kind": kind, "fields": fields, "shapes": shapes,
            "init": {f: M.draw_value(rng, "real", shapes[f]) for f in fields}, "calls": calls}


def abbreviate(plan):
    if plan["sub"] == "simple":
        return plan
    return {"spec": plan["spec"][:5], "n_items": len(plan["spec"]), "keysets": plan["keysets"], "calls": plan["calls"][:10], "n_calls": len(plan["calls"]), "iface": plan["iface"]}


def shrink_candidates(plan):
    calls = plan["calls"]
    n = len(calls)
    # dropping a call that produces states would renumber the pool: replace it by a no-op instead
    for i in range(n - 1, -1, -1):
        if calls[i][0] == "noop":
            continue
        p = copy.deepcopy(plan)
        if calls[i][0] == "update" and plan["sub"] == "liesel":
            p["calls"][i] = ["noop", len(calls[i][3])]
        elif calls[i][0] == "update":
            p["calls"][i] = ["noop", 1]
        else:
            p["calls"][i] = ["noop", 0]
        yield p
    if plan["sub"] == "liesel":
        for i, c in enumerate(calls):
            if c[0] == "update" and c[1] != "eager":
                p = copy.deepcopy(plan)
                p["calls"][i][1] = "eager"
                p["calls"][i][3] = p["calls"][i][3][:1]
                # pool numbering must stay: pad with noops is not possible inside one call; keep B
                p["calls"][i][3] = calls[i][3]
                p["calls"][i][1] = "vmap" if "vmap" in c[1] else "eager"
                if p["calls"][i][1] != c[1]:
                    yield p


# ---------------------------------------------------------------------------- helpers


def state_digest(state) -> str:
    try:
        return tree_digest({k: {"v": v.value, "o": np.asarray(v.outdated)} for k, v in state.items()})
    except Exception as e:  # e.g. a leaked tracer inside a state that should hold concrete arrays
        return f"undigestable:{type(e).__name__}"


def plain_state(state):
    """jax arrays -> numpy-backed state with python bool flags (what a client would keep)."""
    return {k: lsl.NodeState(jax.tree_util.tree_map(lambda x: jnp.asarray(x), v.value), bool(np.asarray(v.outdated))) for k, v in state.items()}


def stack_states(states):
    return jax.tree_util.tree_map(lambda *xs: jnp.stack([jnp.asarray(x) for x in xs]), *states)


def unstack_state(state, b):
    return jax.tree_util.tree_map(lambda x: x[b], state)


def states_equal(a, b, tol=None):
    try:
        return _states_equal(a, b, tol)
    except Exception as e:  # leaked tracers etc.
        return f"the state cannot be read ({type(e).__name__})"


def _states_equal(a, b, tol=None):
    if sorted(a) != sorted(b):
        return f"node names differ: {sorted(set(a) ^ set(b))[:5]}"
    for k in a:
        if bool(np.asarray(a[k].outdated)) != bool(np.asarray(b[k].outdated)):
            return f"{k}: outdated flag {np.asarray(a[k].outdated)} vs {np.asarray(b[k].outdated)}"
        if not M.same_value(a[k].value, b[k].value, tol):
            return f"{k}: {M.show(a[k].value)} vs {M.show(b[k].value)}"
    return None


def ref_update(R, position: dict, state):
    """The state the model itself reaches when the values are assigned directly and the model
    is fully updated (private copy R of the user's model)."""
    with M.no_global_faults():
        R.state = state
        R.auto_update = False
        for key, value in position.items():
            if key in R.nodes:
                R.nodes[key].value = value
            else:
                R.vars[key].value = value
        R.update()
        return plain_state(R.state)


# ---------------------------------------------------------------------------- liesel interface


def exec_liesel(plan, V, log, counters):
    spec = plan["spec"]
    try:
        b, model = M.build_model(spec)
    except Exception as e:
        if "Duplicate node names" in str(e):
            return 0
        if isinstance(e, SutError):
            raise
        raise SutError(f"build_model|{type(e).__name__}|?|{e}") from e
    model.auto_update = plan["user_auto"]
    R = copy.deepcopy(model)
    digest_before_iface = state_digest(model.state)
    with warnings.catch_warnings():
        warnings.simplefilter("ignore")
        iface = lsl.GooseModel(model) if plan["iface"] == "GooseModel" else gs.LieselInterface(model)
    if state_digest(model.state) != digest_before_iface:
        V.add("user-model-modified", "interface-construction", "creating the interface changed the state of the user's model")
        return 0
    tol_cross = 5e-6
    tol_eager = 5e-6 if any(it.get("transform") for it in spec) else None
    A = M.assignable_items(spec)
    node_names = {a[0] for a in A if a[1] == "node"}
    A = [a for a in A if not (a[1] == "var" and a[0] in node_names)]
    user_digest = state_digest(model.state)
    pool = [plain_state(model.state)]
    fns: dict[tuple, Any] = {}
    results: dict[str, Any] = {}
    n_calls = 0

    def fn_for(mode):
        if mode not in fns:
            f = iface.update_state
            fns[mode] = {"eager": f, "jit": jax.jit(f), "vmap": jax.vmap(f), "jit_vmap": jax.jit(jax.vmap(f))}[mode]
        return fns[mode]

    def check_user_untouched(where):
        nonlocal user_digest
        d = state_digest(model.state)
        if d != user_digest:
            V.add("user-model-modified", where.split(":")[0], f"{where}: the state of the user's original model changed")
            user_digest = d
        if model.auto_update != plan["user_auto"]:
            V.add("user-model-modified", "auto_update", f"{where}: auto_update of the user's model changed")

    for ci, call in enumerate(plan["calls"]):
        if V.items:
            break
        kind = call[0]
        where = f"{kind}:#{ci}"
        if kind == "noop":
            for _ in range(call[1]):
                pool.append(pool[0])
            continue
        if kind == "arm":
            M.GLOBAL_ARM[call[1]] = call[2]
            counters["fault.F1_armed"] = counters.get("fault.F1_armed", 0) + 1
            continue
        if kind == "user_assign":
            # the user keeps working with the original model; the interface must not notice
            name, via, vk, shape = A[call[1]]
            with M.no_global_faults():
                v = jnp.asarray(call[2], jnp.float32)
                if via == "var":
                    model.vars[name].value = v
                else:
                    model.nodes[name].value = v
            user_digest = state_digest(model.state)
            counters["probe.user_mutates_original_between_calls"] = counters.get("probe.user_mutates_original_between_calls", 0) + 1
            continue
        n_calls += 1
        if kind == "update":
            mode, ks, elems = call[1], call[2], call[3]
            keys = plan["keysets"][ks]
            positions = [{k[0]: jnp.asarray(v, jnp.float32) for k, v in zip(keys, e["vals"])} for e in elems]
            assert all(e["state"] < len(pool) for e in elems), "plan refers to a state that does not exist yet"
            states = [pool[e["state"]] for e in elems]
            in_digests = [state_digest(s) for s in states]
            if "vmap" in mode:
                args = (stack_states(positions), stack_states(states))
            else:
                args = (positions[0], states[0])
            armed_before = dict(M.GLOBAL_ARM)
            fired_before = sum(M.GLOBAL_FIRED.values())
            if mode != "eager":
                saved = dict(M.GLOBAL_ARM)
                M.GLOBAL_ARM.clear()  # F1 is injected into eager calls only (tracing is not a call)
            raised = None
            try:
                out = fn_for(mode)(*args)
            except Exception as e:
                raised = e
            finally:
                if mode != "eager":
                    M.GLOBAL_ARM.update(saved)
            fired = sum(M.GLOBAL_FIRED.values()) - fired_before
            log.add(ci, call[:3], "raised" if raised else "ok")
            counters[f"op.update_{mode}"] = counters.get(f"op.update_{mode}", 0) + 1
            # (3) inputs untouched, always
            for s, d in zip(states, in_digests):
                if state_digest(s) != d:
                    V.add("input-state-modified", mode, f"{where}: the input model state was modified by update_state")
            check_user_untouched(where)
            if raised is not None:
                if not fired:
                    V.add("unexpected-exception", f"update_state/{mode}/{type(raised).__name__}", f"{where}: {raised}")
                else:
                    counters["fault.F1_fired_inside_update_state"] = counters.get("fault.F1_fired_inside_update_state", 0) + 1
                for _ in elems:
                    pool.append(pool[0])
                continue
            outs = [unstack_state(out, b_) for b_ in range(len(elems))] if "vmap" in mode else [out]
            for b_, (o, pos, st) in enumerate(zip(outs, positions, states)):
                try:
                    o = plain_state(o)
                except Exception as e:
                    V.add("returned-state-unusable", f"{mode}/{type(e).__name__}", f"{where}: the returned state cannot be read: {e}")
                    pool.append(pool[0])
                    continue
                ref = ref_update(R, pos, st)
                err = states_equal(o, ref, tol_eager if mode == "eager" else tol_cross)
                if err:
                    V.add("equals-direct-assignment", mode, f"{where}[{b_}]: update_state({list(pos)}) differs from assigning directly and updating: {err}")
                # (6) no outdated node
                od = [k for k, v in o.items() if bool(np.asarray(v.outdated))]
                if od:
                    V.add("returned-state-outdated", mode, f"{where}: nodes {od[:4]} are flagged outdated in the returned state")
                # (4) get-after-put
                try:
                    got = iface.extract_position([k[0] for k in keys], o)
                except Exception as e:
                    V.add("unexpected-exception", f"extract_position/{type(e).__name__}", f"{where}: {e}")
                    got = {k[0]: pos[k[0]] for k in keys}
                for k in keys:
                    if not M.same_value(got[k[0]], pos[k[0]]):
                        V.add("get-after-put", mode, f"{where}: extract_position({k[0]}) = {M.show(got[k[0]])} after putting {M.show(pos[k[0]])}")
                pool.append(o)
            # (2) history independence
            key = canon([mode, ks, elems])
            if key in results:
                # bit-identical, except that TFP's identity-keyed bijector cache makes results of
                # programs with transformed variables reproducible only up to float32 rounding
                for o_old, o_new in zip(results[key], outs):
                    err = states_equal(plain_state(o_old), plain_state(o_new), tol_eager)
                    if err:
                        V.add("history-dependence", mode, f"{where}: the same call (mode, position, state) returned a different state than earlier in this run: {err}")
                counters["probe.repeated_call_compared"] = counters.get("probe.repeated_call_compared", 0) + 1
            results[key] = outs
        elif kind == "extract":
            keys = plan["keysets"][call[1]]
            st = pool[call[2] % len(pool)]
            d0 = state_digest(st)
            try:
                got = iface.extract_position([k[0] for k in keys], st)
            except Exception as e:
                V.add("unexpected-exception", f"extract_position/{type(e).__name__}", f"{where}: {e}")
                continue
            for k in keys:
                # node name first, variable name second
                name = k[0]
                want = st[name].value if name in st else st[f"{name}_value"].value
                if not M.same_value(got[name], want):
                    V.add("extract-position", "value", f"{where}: extract_position({name}) = {M.show(got[name])}, the state holds {M.show(want)}")
            if list(got.keys()) != [k[0] for k in keys]:
                V.add("extract-position", "keys", f"{where}: keys {list(got.keys())}")
            if state_digest(st) != d0:
                V.add("input-state-modified", "extract", f"{where}")
            check_user_untouched(where)
            counters["op.extract"] = counters.get("op.extract", 0) + 1
        elif kind == "log_prob":
            st = pool[call[1] % len(pool)]
            f = iface.log_prob if call[2] == "eager" else jax.jit(iface.log_prob)
            try:
                lp = f(st)
            except Exception as e:
                V.add("unexpected-exception", f"log_prob/{type(e).__name__}", f"{where}: {e}")
                continue
            with M.no_global_faults():
                R.state = st
                want = R.log_prob
            if not M.same_value(np.asarray(lp), np.asarray(want), None if call[2] == "eager" else tol_cross):
                V.add("log-prob", call[2], f"{where}: interface log_prob {np.asarray(lp).tolist()} vs model log_prob {np.asarray(want).tolist()} at the same values")
            check_user_untouched(where)
            counters["op.log_prob"] = counters.get("op.log_prob", 0) + 1
    M.GLOBAL_ARM.clear()
    counters["probe.name_clash_node_vs_var"] = int(len({it["name"] for it in spec}) < len(spec))
    counters["probe.tracer_leak_then_eager"] = int(any(c[0] == "update" and c[1] != "eager" for c in plan["calls"]) and any(c[0] == "update" and c[1] == "eager" for c in plan["calls"]))
    return n_calls


# ---------------------------------------------------------------------------- dict / dataclass / namedtuple


def exec_simple(plan, V, log, counters):
    fields = list(plan["fields"])
    init = {f: jnp.asarray(plan["init"][f], jnp.float32) for f in fields}
    lp_fields = list(fields)

    def lp_of(get):
        return sum(jnp.sum(get(f) ** 2) * (i + 1) for i, f in enumerate(lp_fields))

    if plan["kind"] == "dict":
        iface = gs.DictInterface(lambda s: lp_of(lambda f: s[f]))
        s0 = dict(init)
        get = lambda s, f: s[f]
    elif plan["kind"] == "dataclass_postinit":
        # a model state with a field that is not a constructor argument (kept by __post_init__)
        def _post(self):
            if not hasattr(self, "n_seen"):
                self.n_seen = jnp.float32(0.0)

        DC = dataclasses.make_dataclass("SimStatePost", [(f, Any) for f in fields] + [("n_seen", Any, dataclasses.field(init=False))],
                                        namespace={"__post_init__": _post})
        iface = gs.DataclassInterface(lambda s: lp_of(lambda f: getattr(s, f)))
        s0 = DC(**init)
        s0.n_seen = jnp.float32(17.0)
        init = dict(init, n_seen=jnp.float32(17.0))
        fields = fields + ["n_seen"]
        get = lambda s, f: getattr(s, f)
    elif plan["kind"] == "dataclass":
        DC = register_dataclass_as_pytree(dataclasses.make_dataclass("SimState", [(f, Any) for f in fields]))
        iface = gs.DataclassInterface(lambda s: lp_of(lambda f: getattr(s, f)))
        s0 = DC(**init)
        get = lambda s, f: getattr(s, f)
    else:
        NT = NamedTuple("SimState", [(f, Any) for f in fields])
        iface = gs.NamedTupleInterface(lambda s: lp_of(lambda f: getattr(s, f)))
        s0 = NT(**init)
        get = lambda s, f: getattr(s, f)
    pool = [s0]
    ref_pool = [dict(init)]
    dig = lambda s: tree_digest({f: get(s, f) for f in fields})
    n = 0
    for ci, call in enumerate(plan["calls"]):
        if V.items:
            break
        where = f"{call[0]}:#{ci}"
        n += 1
        if call[0] == "noop":
            for _ in range(call[1]):
                pool.append(pool[0])
                ref_pool.append(ref_pool[0])
            continue
        if call[0] == "update":
            mode, ks, vals, si = call[1], call[2], call[3], call[4] % len(pool)
            pos = {k: jnp.asarray(v, jnp.float32) for k, v in zip(ks, vals)}
            st = pool[si]
            d0 = dig(st)
            if plan["kind"] == "dataclass_postinit":
                mode = "eager"  # not a registered pytree
                if ci % 3 == 0:
                    pos = dict(pos, n_seen=jnp.float32(ci))  # the extra field can be put, too
            f = iface.update_state if mode == "eager" else jax.jit(iface.update_state)
            try:
                out = f(pos, st)
            except Exception as e:
                raise SutError(f"update_state|{type(e).__name__}|{plan['kind']}|{e}") from e
            if dig(st) != d0:
                V.add("input-state-modified", plan["kind"], f"{where}: input state changed")
            exp = dict(ref_pool[si])
            exp.update(pos)
            for fld in fields:
                if not M.same_value(get(out, fld), exp[fld]):
                    V.add("put", plan["kind"], f"{where}: field {fld} = {M.show(get(out, fld))}, expected {M.show(exp[fld])}")
            got = iface.extract_position(list(pos), out)
            for k in pos:
                if not M.same_value(got[k], pos[k]):
                    V.add("get-after-put", plan["kind"], f"{where}: {k}")
            if type(out) is not type(st):
                V.add("put", "type/" + plan["kind"], f"{where}: returned {type(out).__name__}")
            pool.append(out)
            ref_pool.append(exp)
            log.add(ci, call[:3])
        elif call[0] == "extract":
            ks, si = call[1], call[2] % len(pool)
            got = iface.extract_position(ks, pool[si])
            if list(got.keys()) != list(ks) or any(not M.same_value(got[k], ref_pool[si][k]) for k in ks):
                V.add("get", plan["kind"], f"{where}: extract_position({ks})")
        else:
            si = call[1] % len(pool)
            lp = iface.log_prob(pool[si])
            want = lp_of(lambda f: ref_pool[si][f])
            if not M.same_value(np.asarray(lp), np.asarray(want)):
                V.add("log-prob", plan["kind"], f"{where}: {np.asarray(lp).tolist()} vs {np.asarray(want).tolist()}")
    counters[f"probe.simple_{plan['kind']}"] = 1
    return n


def execute(plan: dict) -> dict:
    V = Violations("C03")
    log = EventLog()
    counters: dict = {}
    M.GLOBAL_ARM.clear()
    M.GLOBAL_FIRED.clear()
    if plan["sub"] == "liesel":
        n = exec_liesel(plan, V, log, counters)
        sig = sha(canon([[it["k"], it.get("fn"), it.get("mode"), (it.get("transform") or {}).get("how")] for it in plan["spec"]] + [[c[0], c[1] if c[0] in ("update",) else None] for c in plan["calls"]]))[:16]
        sub = "F1-raising-nodes" if plan["faults"] else "fault-free"
        nontrivial = n > 0 and (not plan["faults"] or counters.get("fault.F1_fired_inside_update_state", 0) > 0 or True)
    else:
        n = exec_simple(plan, V, log, counters)
        sig = sha(canon([plan["kind"], plan["fields"], [c[0] for c in plan["calls"]]]))[:16]
        sub = "simple-interfaces"
        nontrivial = n > 0
    return {"violations": V.items, "digest": log.digest(), "tail": log.tail[:40], "sig": sig, "nontrivial": nontrivial,
            "counters": counters, "simtime": n, "subbatch": sub}

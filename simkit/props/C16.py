"""C16 — epoch schedules accepted iff valid; Stan warm-up adds up; builder chunk divides."""

from __future__ import annotations

import copy

import numpy as np

from liesel.goose.epoch import EpochConfig, EpochManager, EpochType
from liesel.goose.warmup import stan_epochs
from simkit import engine_world as W
from simkit.core import EventLog, SutError, Violations, canon, sha

RUN_CAP_S = 900


# ---------------------------------------------------------------------------- plans


def gen_cfg(rng, configs_so_far_valid: bool):
    r = rng.random()
    typ = rng.choice([0, 1, 2, 3, 4, 4]) if r < 0.9 else rng.choice([0, 0, 4])
    if typ == 0:
        dur = rng.choice([1, 1, 1, 0, 2, 5])
    else:
        dur = rng.choice([-1, 0, 1, 1, 2, 3, 4, 6, 8, 9, 12, 15, 20, 24, 30])
    thin = rng.choice([0, 1, 1, 1, 1, 2, 3, 4, 5, 6, 8, 12, 35, dur, dur + 1, max(dur - 1, 0)])
    return [typ, dur, thin]


def gen_history(rng):
    ops = []
    n = rng.randint(3, 30)
    # start valid most of the time so that histories get deep
    if rng.random() < 0.85:
        ops.append(["append", [0, 1, 1]])
    for _ in range(n):
        r = rng.random()
        if r < 0.55:
            c = gen_cfg(rng, True)
            if rng.random() < 0.5:
                # bias towards valid ones
                c[1] = max(1, abs(c[1]))
                c[2] = rng.choice(W.divisors(c[1]))
                if c[0] == 0:
                    c[0] = rng.choice([1, 2, 3, 4])
            ops.append(["append", c])
        elif r < 0.8:
            ops.append(["next"])
        else:
            ops.append(["has_more"])
    return {"at_construction": rng.randint(0, 2) if rng.random() < 0.3 else 0, "ops": ops}


def gen_stan(rng):
    mode = rng.random()
    init = rng.randint(1, 400)
    term = rng.randint(1, 400)
    base = rng.randint(1, 400)
    if mode < 0.75:
        need = max(20, init + term + base)
        warm = rng.choice([need, need + 1, need + rng.randint(0, 50), rng.randint(need, max(need, 5000))])
    elif mode < 0.9:
        warm = rng.randint(1, max(1, init + term + base - 1))
    else:
        init, term, base = rng.randint(1, 6), rng.randint(1, 6), rng.randint(1, 6)
        warm = rng.randint(1, 30)
    post = rng.randint(1, 3000)
    tw = rng.randint(1, min(init, term, base, 50)) if rng.random() < 0.5 else 1
    tp = rng.choice(W.divisors(post)) if rng.random() < 0.5 else 1
    return [warm, post, init, term, base, tp, tw]


def gen_plan(rng, tier: str, idx: int) -> dict:
    plan = {
        "histories": [gen_history(rng) for _ in range(20)],
        "stan": [gen_stan(rng) for _ in range(60)],
        "engine": None,
    }
    if idx % 8 == 0:
        # builder chunk: a schedule from set_duration, sampled with a probe kernel
        init, term, base = 75, rng.randint(1, 30), 25
        warm = rng.randint(20 + 75 + 25 + term, 400)
        post = rng.randint(1, 200)
        tw = rng.randint(1, min(term, 25)) if rng.random() < 0.5 else 1
        tp = rng.choice(W.divisors(post))
        plan["engine"] = {"warm": warm, "post": post, "term": term, "tp": tp, "tw": tw,
                          "chains": rng.randint(1, 2), "seed": rng.randrange(2**31)}
    elif idx % 8 == 4:
        # builder chunk for schedules handed over with set_epochs: any valid schedule, in particular
        # with one-iteration epochs besides the initial-values epoch and with a common divisor > 1
        unit = rng.choice([1, 2, 3, 5, 10])
        eps = []
        for _ in range(rng.randint(1, 4)):
            eps.append([rng.choice([1, 2, 3]), unit * rng.choice([1, 2, 4, 6]), 1])
        if rng.random() < 0.6:
            eps.insert(rng.randrange(len(eps) + 1), [rng.choice([1, 3]), 1, 1])
        for _ in range(rng.randint(1, 2)):
            d = rng.choice([1, unit, unit * 2, unit * 5])
            eps.append([4, d, rng.choice(W.divisors(d))])
        plan["engine"] = {"epochs": [[0, 1, 1]] + eps, "chains": rng.randint(1, 2), "seed": rng.randrange(2**31)}
    return plan


def shrink_candidates(plan):
    def cp():
        return copy.deepcopy(plan)
    if plan["engine"] is not None:
        p = cp()
        p["engine"] = None
        yield p
    if plan["stan"]:
        p = cp()
        p["stan"] = []
        yield p
        if len(plan["stan"]) > 1:
            h = len(plan["stan"]) // 2
            for part in (plan["stan"][:h], plan["stan"][h:]):
                p = cp()
                p["stan"] = part
                yield p
    if plan["histories"]:
        p = cp()
        p["histories"] = []
        yield p
        if len(plan["histories"]) > 1:
            h = len(plan["histories"]) // 2
            for part in (plan["histories"][:h], plan["histories"][h:]):
                p = cp()
                p["histories"] = part
                yield p
        else:
            ops = plan["histories"][0]["ops"]
            for i in range(len(ops) - 1, -1, -1):
                p = cp()
                del p["histories"][0]["ops"][i]
                yield p
            if plan["histories"][0]["at_construction"]:
                p = cp()
                p["histories"][0]["at_construction"] = 0
                yield p


# ---------------------------------------------------------------------------- oracles


def why_invalid(configs, c):
    typ, dur, thin = c
    if not configs and typ != 0:
        return "first-not-initial"
    if typ == 0 and configs:
        return "second-initial"
    if typ == 0 and dur != 1:
        return "initial-duration"
    if configs and typ in (1, 2, 3) and configs[-1][0] == 4:
        return "warmup-after-posterior"
    if dur < 1:
        return "duration<1"
    if thin < 1:
        return "thinning<1"
    if thin > dur:
        return "thinning>duration"
    if typ == 4 and dur % thin:
        return "posterior-thinning-not-dividing"
    return None


def run_history(h, V, log, counters):
    ops = h["ops"]
    k = h["at_construction"]
    first = []
    rest = list(ops)
    # first k append-ops are handed to the constructor
    while k and rest and rest[0][0] == "append":
        first.append(rest.pop(0)[1])
        k -= 1
    ref: list = []
    ok_all = all(W.ref_valid_append(first[:i], first[i]) for i in range(len(first)))
    try:
        m = EpochManager([W.cfg(c) for c in first] if first else None)
        built = True
    except Exception as e:
        built = False
        if ok_all:
            V.add("manager-accepts-iff-valid", "constructor/valid-rejected", f"EpochManager({first}) raised {type(e).__name__}: {e}")
            return
    if built and not ok_all:
        V.add("manager-accepts-iff-valid", "constructor/invalid-accepted", f"EpochManager({first}) accepted an invalid schedule")
        return
    if not built:
        counters["fault.F6_rejected_constructor"] = counters.get("fault.F6_rejected_constructor", 0) + 1
        return
    ref = [list(c) for c in first]
    ptr = 0
    start = 0
    for i, op in enumerate(rest):
        if op[0] == "append":
            c = op[1]
            reason = why_invalid(ref, c)
            try:
                m.append(W.cfg(c))
                accepted = True
            except Exception:
                accepted = False
            log.add("append", c, accepted)
            if accepted and reason is not None:
                V.add("manager-accepts-iff-valid", f"invalid-accepted/{reason}", f"after {ref}: append({c}) was accepted although {reason}")
                return
            if not accepted and reason is None:
                V.add("manager-accepts-iff-valid", f"valid-rejected/{W.TYPE_NAMES[c[0]]}", f"after {ref}: valid append({c}) was rejected")
                return
            if accepted:
                ref.append(list(c))
                counters["appends_accepted"] = counters.get("appends_accepted", 0) + 1
                if ptr > 0:
                    counters["probe.append_after_next"] = counters.get("probe.append_after_next", 0) + 1
            else:
                counters["fault.F6_rejected_append"] = counters.get("fault.F6_rejected_append", 0) + 1
                counters["probe.reject_" + reason] = counters.get("probe.reject_" + reason, 0) + 1
        elif op[0] == "has_more":
            got = bool(m.has_more())
            if got != (ptr < len(ref)):
                V.add("manager-state", "has_more", f"has_more() = {got} with {len(ref)} epochs, {ptr} handed out (ops {rest[:i + 1]})")
                return
        elif op[0] == "next":
            if ptr >= len(ref):
                try:
                    m.next()
                    V.add("manager-state", "next-when-empty", "next() returned an epoch although none is left")
                    return
                except RuntimeError:
                    counters["fault.F6_next_when_empty"] = counters.get("fault.F6_next_when_empty", 0) + 1
                    continue
            st = m.next()
            c = ref[ptr]
            got = [int(st.nth_epoch), int(st.time_before_epoch), int(st.time), int(st.time_in_epoch),
                   int(st.config.type), int(st.config.duration), int(st.config.thinning)]
            exp = [ptr, start, start, 0, c[0], c[1], c[2]]
            log.add("next", got)
            if got != exp:
                V.add("manager-state", "epoch-state", f"next() #{ptr}: [nth,time_before,time,time_in_epoch,type,dur,thin] = {got}, expected {exp}; history {rest[:i + 1]}")
                return
            start += c[1]
            ptr += 1
            counters["epochs_handed_out"] = counters.get("epochs_handed_out", 0) + 1


def check_stan(args, V, log, counters):
    warm, post, init, term, base, tp, tw = args
    kw = dict(warmup_duration=warm, posterior_duration=post, init_duration=init, term_duration=term,
              base_duration=base, thinning_posterior=tp, thinning_warmup=tw)
    admissible = warm >= 20 and warm >= init + term + base
    try:
        eps = stan_epochs(**kw)
    except ValueError:
        if admissible:
            V.add("stan-epochs", "admissible-raised", f"stan_epochs({kw}) raised ValueError")
        else:
            counters["fault.F6_stan_inadmissible_raised"] = counters.get("fault.F6_stan_inadmissible_raised", 0) + 1
        return
    if not admissible:
        V.add("stan-epochs", "inadmissible-accepted", f"stan_epochs({kw}) returned a schedule although the warm-up is too short")
        return
    cfgs = [[int(e.type), int(e.duration), int(e.thinning)] for e in eps]
    log.add("stan", args, cfgs)
    # valid for the manager (reference and real)
    bad = next((why_invalid(cfgs[:i], cfgs[i]) for i in range(len(cfgs)) if why_invalid(cfgs[:i], cfgs[i])), None)
    if bad:
        V.add("stan-epochs", f"invalid-schedule/{bad}", f"stan_epochs({kw}) = {cfgs}")
        return
    try:
        EpochManager(eps)
    except Exception as e:
        V.add("stan-epochs", "manager-rejects", f"stan_epochs({kw}) = {cfgs}: {e}")
        return
    wsum = sum(c[1] for c in cfgs if c[0] in (1, 2, 3))
    if wsum != warm:
        V.add("stan-epochs", "warmup-sum", f"stan_epochs({kw}): warm-up epochs sum to {wsum}, requested {warm}; {cfgs}")
    types = [c[0] for c in cfgs]
    slow = [c[1] for c in cfgs if c[0] == 2]
    pattern_ok = (
        types[0] == 0 and types[1] == 1 and types[-1] == 4 and types[-2] == 1
        and all(t == 2 for t in types[2:-2]) and len(slow) >= 1
        and cfgs[1][1] == init and cfgs[-2][1] == term and cfgs[-1][1] == post
    )
    if not pattern_ok:
        V.add("stan-epochs", "pattern", f"stan_epochs({kw}) = {cfgs} is not initial / fast(init) / slow.. / fast(term) / posterior(post)")
        return
    for i, s in enumerate(slow[:-1]):
        if s != base * 2**i:
            V.add("stan-epochs", "doubling", f"stan_epochs({kw}): slow windows {slow} do not double from base {base}")
            return
    if len(slow) > 1 and slow[-1] < 2 * slow[-2]:
        V.add("stan-epochs", "doubling-last", f"stan_epochs({kw}): last slow window {slow[-1]} is shorter than twice its predecessor {slow[-2]} (slow windows {slow})")
    if len(slow) == 1 and slow[0] < base:
        V.add("stan-epochs", "doubling-last", f"single slow window {slow[0]} shorter than base {base}")
    if any(c[2] != tw for c in cfgs[1:-1]) or cfgs[-1][2] != tp or cfgs[0] != [0, 1, 1]:
        V.add("stan-epochs", "thinning", f"stan_epochs({kw}) = {cfgs}")
    counters["stan_schedules_checked"] = counters.get("stan_schedules_checked", 0) + 1
    counters["probe.stan_multi_slow"] = counters.get("probe.stan_multi_slow", 0) + int(len(slow) > 2)
    counters["probe.stan_tight_warmup"] = counters.get("probe.stan_tight_warmup", 0) + int(warm == init + term + base)


def run_builder_chunk(e, V, log, counters):
    import liesel.goose as gs
    import jax.numpy as jnp

    C = e["chains"]
    plan = {"chains": C, "kernels": [{"kind": "probe", "keys": [{"name": "x0_0", "shape": [], "dtype": "i"}], "needs_history": False}],
            "epochs0": [[0, 1, 1]], "script": [], "via": "builder"}
    ker = W.ProbeKernel(0, plan["kernels"][0]["keys"])
    b = gs.EngineBuilder(seed=e["seed"], num_chains=C)
    try:
        if "epochs" in e:
            from liesel.goose.epoch import EpochConfig, EpochType

            b.set_epochs([EpochConfig(EpochType(t), d, th, None) for t, d, th in e["epochs"]])
            counters["probe.builder_chunk_set_epochs"] = 1
            counters["probe.builder_chunk_second_one_iteration_epoch"] = int(any(d == 1 for _, d, _ in e["epochs"][1:]))
        else:
            b.set_duration(warmup_duration=e["warm"], posterior_duration=e["post"], term_duration=e["term"],
                           thinning_posterior=e["tp"], thinning_warmup=e["tw"])
    except Exception as ex:
        raise SutError(f"set_duration|{type(ex).__name__}|?|set_duration/set_epochs({e}) with admissible arguments raised: {ex}") from ex
    b.set_model(gs.DictInterface(lambda s: jnp.float32(0.0)))
    b.set_initial_values(W.initial_state(plan, 0))
    b.add_kernel(ker)
    b.show_progress = False
    cfgs = [[int(c.type), int(c.duration), int(c.thinning)] for c in b.epochs]
    try:
        eng = b.build()
        eng.sample_all_epochs()
        res = eng.get_results()
    except Exception as ex:
        raise SutError(f"builder-chunk|{type(ex).__name__}|?|set_duration({e}) -> {cfgs}: {ex}") from ex
    n_inf = np.asarray(res.transition_infos.combine_all().unwrap()["kernel_00"].error_code).shape[1]
    total = sum(c[1] for c in cfgs[1:])
    requested = sum(d for _, d, _ in e["epochs"][1:]) if "epochs" in e else e["warm"] + e["post"]
    if n_inf != total or total != requested:
        V.add("builder-chunk", "transitions", f"set_duration/set_epochs({e}): {n_inf} transitions sampled, schedule {cfgs} has {total}, requested {requested}")
    n_st = np.asarray(res.get_samples()["x0_0"]).shape[1]
    exp = 1 + sum(c[1] // c[2] for c in cfgs[1:])
    if n_st != exp:
        V.add("builder-chunk", "stored", f"{n_st} stored samples, expected {exp} for {cfgs}")
    log.add("builder", cfgs, n_inf, n_st)
    counters["probe.builder_chunk_runs"] = 1
    return total * C


def execute(plan: dict) -> dict:
    V = Violations("C16")
    log = EventLog()
    counters: dict = {}
    for h in plan["histories"]:
        run_history(h, V, log, counters)
    for a in plan["stan"]:
        check_stan(a, V, log, counters)
    sim = 0
    if plan["engine"] is not None:
        sim = run_builder_chunk(plan["engine"], V, log, counters)
    n_ops = sum(len(h["ops"]) for h in plan["histories"])
    return {
        "violations": V.items,
        "digest": log.digest(),
        "tail": log.tail[:50],
        "sig": sha(canon([plan["histories"][:2], plan["stan"][:2]]))[:16],
        "nontrivial": n_ops > 0 or bool(plan["stan"]),
        "counters": counters,
        "simtime": n_ops + len(plan["stan"]),
        "subbatch": "manager+stan" + ("+builder" if plan["engine"] else ""),
    }

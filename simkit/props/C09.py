"""C09 — kernels compose blockwise and keep the model state coherent (world E, real kernels)."""

from __future__ import annotations

import copy
from dataclasses import dataclass
from typing import Any, ClassVar

import jax
import jax.numpy as jnp
import numpy as np
import tensorflow_probability.substrates.jax.bijectors as tfb
import tensorflow_probability.substrates.jax.distributions as tfd
from scipy import stats

import liesel.goose as gs
import liesel.model as lsl
from liesel.goose.epoch import EpochConfig, EpochType
from liesel.goose.kernel import DefaultTransitionInfo, DefaultTuningInfo, TransitionOutcome, TuningOutcome, WarmupOutcome
from liesel.goose.kernel_sequence import KernelSequence
from liesel.goose.mh_kernel import MHProposal
from liesel.goose.pytree import register_dataclass_as_pytree
from simkit.core import EventLog, SutError, Violations, canon, sha

RUN_CAP_S = 900
F64 = np.float64


# ---------------------------------------------------------------------------- observer kernel (stub)


@register_dataclass_as_pytree
@dataclass
class ObserverInfo:
    error_code: Any
    acceptance_prob: Any
    position_moved: Any
    seen: Any

    def minimize(self):
        return DefaultTransitionInfo(self.error_code, self.acceptance_prob, self.position_moved)


class ObserverKernel:
    """Has no position keys, changes nothing, copies what it sees of the model state into its
    transition info: makes the intermediate states of an iteration observable."""

    error_book: ClassVar[dict[int, str]] = {0: "no errors"}
    needs_history: ClassVar[bool] = False
    identifier: str = ""
    position_keys: tuple = ()

    def __init__(self, watch):
        self.watch = list(watch)
        self._model = None

    def set_model(self, model):
        self._model = model

    def has_model(self):
        return self._model is not None

    def init_state(self, prng_key, model_state):
        return {}

    def transition(self, prng_key, kernel_state, model_state, epoch):
        seen = dict(self._model.extract_position(self.watch, model_state))
        seen["__log_prob"] = self._model.log_prob(model_state)
        return TransitionOutcome(ObserverInfo(jnp.int32(0), jnp.float32(99.0), jnp.int32(0), seen), kernel_state, model_state)

    def tune(self, prng_key, kernel_state, model_state, epoch, history=None):
        return TuningOutcome(DefaultTuningInfo(0, epoch.time), kernel_state)

    def start_epoch(self, prng_key, kernel_state, model_state, epoch):
        return kernel_state

    def end_epoch(self, prng_key, kernel_state, model_state, epoch):
        return kernel_state

    def end_warmup(self, prng_key, kernel_state, model_state, tuning_history):
        return WarmupOutcome(0, kernel_state)


class WarningStepKernel(ObserverKernel):
    """Verif-owned kernel (public protocol): adds 1 to its own key in every transition and reports a
    non-zero, purely informational error code in odd iterations — as NUTS does when it reaches the
    maximum tree depth and still moves."""

    error_book: ClassVar[dict[int, str]] = {0: "no errors", 2: "informational warning"}

    def __init__(self, key, liesel):
        super().__init__([])
        self.position_keys = (key,)
        self._liesel = liesel

    def transition(self, prng_key, kernel_state, model_state, epoch):
        k = self.position_keys[0]
        cur = model_state[f"{k}_value"].value if self._liesel else model_state[k]
        new_state = self._model.update_state({k: cur + 1.0}, model_state)
        code = jnp.asarray(epoch.time % 2 * 2, jnp.int32)
        return TransitionOutcome(DefaultTransitionInfo(code, jnp.float32(1.0), jnp.int32(1)), kernel_state, new_state)


# ---------------------------------------------------------------------------- plans


def gen_plan(rng, tier: str, idx: int) -> dict:
    n = rng.randint(8, 20)
    blocks = ["beta", "scale", "z"]
    kern = {
        "beta": rng.choice(["nuts", "hmc", "iwls", "rw", "mh"]),
        "scale": rng.choice(["rw", "iwls", "nuts", "hmc", "mh"]),
        "z": rng.choice(["gibbs", "rw", "rw", "mh"]),
    }
    order = blocks[:]
    rng.shuffle(order)
    if rng.random() < 0.3:
        order = order[: rng.randint(2, 3)]
    return {"model": "liesel" if idx % 3 != 2 else "dict", "n": n, "data_seed": rng.randrange(10**6), "order": order, "kern": kern,
            "scale_param": rng.choice(["log_sigma", "transformed_sigma"]), "z_prior": rng.choice(["uniform", "normal"]),
            "chains": rng.randint(1, 3), "seed": rng.randrange(2**31), "epochs": [[0, 1, 1], [rng.choice([1, 3]), 10, 1], [4, 10, 1]],
            "step": {"beta": rng.choice([0.05, 0.2, 0.6]), "scale": rng.choice([0.1, 0.5, 1.5]), "z": rng.choice([0.5, 2.0, 4.0])},
            "gibbs_pair": rng.random() < 0.5, "pair_order": rng.choice(["xy", "yx"]),
            # user-assigned kernel identifiers whose alphabetical order differs from the configured order
            "ident_seed": rng.randrange(10**6) if rng.random() < 0.5 else None,
            "warning_kernel": rng.random() < 0.6}


def shrink_candidates(plan):
    if plan["gibbs_pair"]:
        p = copy.deepcopy(plan)
        p["gibbs_pair"] = False
        yield p
    if plan.get("warning_kernel"):
        p = copy.deepcopy(plan)
        p["warning_kernel"] = False
        yield p
    if plan.get("ident_seed") is not None:
        p = copy.deepcopy(plan)
        p["ident_seed"] = None
        yield p
    if plan["chains"] > 1:
        p = copy.deepcopy(plan)
        p["chains"] = 1
        yield p
    if len(plan["order"]) > 1:
        for i in range(len(plan["order"])):
            p = copy.deepcopy(plan)
            del p["order"][i]
            yield p
    for b, k in plan["kern"].items():
        if k != "rw" and b in plan["order"]:
            p = copy.deepcopy(plan)
            p["kern"][b] = "rw"
            yield p
    if len(plan["epochs"]) > 2:
        p = copy.deepcopy(plan)
        del p["epochs"][1]
        yield p


# ---------------------------------------------------------------------------- models


def data(plan):
    rs = np.random.RandomState(plan["data_seed"])
    n = plan["n"]
    X = np.c_[np.ones(n), rs.normal(size=n)].astype(np.float32)
    y = (X @ np.array([0.5, -1.0]) + 0.7 * rs.normal(size=n)).astype(np.float32)
    return X, y


def scale_key(plan):
    return "log_sigma" if plan["scale_param"] == "log_sigma" else "sigma_transformed"


def build_liesel(plan):
    X, y = data(plan)
    beta = lsl.Var(jnp.asarray([0.1, -0.2], jnp.float32), lsl.Dist(tfd.Normal, loc=jnp.float32(0.0), scale=jnp.float32(10.0)), name="beta")
    beta.parameter = True
    if plan["scale_param"] == "log_sigma":
        ls = lsl.Var(jnp.float32(0.1), lsl.Dist(tfd.Normal, loc=jnp.float32(0.0), scale=jnp.float32(2.0)), name="log_sigma")
        ls.parameter = True
        sigma = lsl.Var(lsl.Calc(jnp.exp, ls), name="sigma")
    else:
        sigma = lsl.Var(jnp.float32(1.1), lsl.Dist(tfd.InverseGamma, concentration=jnp.float32(2.0), scale=jnp.float32(1.0)), name="sigma")
        sigma.parameter = True
        sigma.transform(tfb.Exp())
    Xv = lsl.Var(jnp.asarray(X), name="X")
    mu = lsl.Var(lsl.Calc(jnp.dot, Xv, beta), name="mu")
    if plan["z_prior"] == "uniform":
        z = lsl.Var(jnp.float32(0.2), lsl.Dist(tfd.Uniform, low=jnp.float32(-1.5), high=jnp.float32(1.5)), name="z")
    else:
        z = lsl.Var(jnp.float32(0.2), lsl.Dist(tfd.Normal, loc=jnp.float32(0.0), scale=jnp.float32(1.0)), name="z")
    z.parameter = True
    d = lsl.Calc(lambda z_, b_: jnp.tanh(z_) * b_[0], z, beta, _name="d")
    yv = lsl.Var(jnp.asarray(y), lsl.Dist(tfd.Normal, loc=mu, scale=sigma), name="y")
    yv.observed = True
    gx = lsl.Var(jnp.float32(1.0), name="gx")
    gy = lsl.Var(jnp.float32(2.0), name="gy")
    gsum = lsl.Calc(lambda a, b: a + 10.0 * b, gx, gy, _name="gsum")
    gw = lsl.Var(jnp.float32(0.0), name="gw")
    model = lsl.GraphBuilder().add(yv, d, gsum, gw).build_model()
    return model, gs.LieselInterface(model), model.state


def ref_quantities(plan, p: dict) -> dict:
    """Closed-form float64 reference of every derived quantity and the joint log-density."""
    X, y = data(plan)
    X, y = X.astype(F64), y.astype(F64)
    beta = np.asarray(p["beta"], F64)
    out = {}
    if plan["scale_param"] == "log_sigma":
        sigma = np.exp(F64(p["log_sigma"]))
        lp_scale = stats.norm.logpdf(F64(p["log_sigma"]), 0, 2)
    else:
        t = F64(p["sigma_transformed"])
        sigma = np.exp(t)
        lp_scale = stats.invgamma.logpdf(sigma, 2.0, scale=1.0) + t
    mu = X @ beta
    z = F64(p["z"])
    lp_z = (np.log(1 / 3.0) if abs(z) <= 1.5 else -np.inf) if plan["z_prior"] == "uniform" else stats.norm.logpdf(z, 0, 1)
    out["sigma"] = sigma
    out["mu"] = mu
    out["d"] = np.tanh(z) * beta[0]
    out["gsum"] = F64(p["gx"]) + 10.0 * F64(p["gy"])
    out["__log_prob"] = stats.norm.logpdf(y, mu, sigma).sum() + stats.norm.logpdf(beta, 0, 10).sum() + lp_scale + lp_z
    return out


def build_dict(plan):
    X, y = data(plan)
    Xj, yj = jnp.asarray(X), jnp.asarray(y)
    sk = scale_key(plan)

    def lp(s):
        sigma = jnp.exp(s[sk])
        if plan["scale_param"] == "log_sigma":
            lps = tfd.Normal(0.0, 2.0).log_prob(s[sk])
        else:
            lps = tfd.InverseGamma(2.0, 1.0).log_prob(sigma) + s[sk]
        lpz = tfd.Uniform(-1.5, 1.5).log_prob(s["z"]) if plan["z_prior"] == "uniform" else tfd.Normal(0.0, 1.0).log_prob(s["z"])
        return jnp.sum(tfd.Normal(Xj @ s["beta"], sigma).log_prob(yj)) + jnp.sum(tfd.Normal(0.0, 10.0).log_prob(s["beta"])) + lps + lpz

    state = {"beta": jnp.asarray([0.1, -0.2], jnp.float32), sk: jnp.float32(0.1), "z": jnp.float32(0.2), "gx": jnp.float32(1.0), "gy": jnp.float32(2.0), "gw": jnp.float32(0.0)}
    return None, gs.DictInterface(lp), state


DESC = {"beta": {"mu", "d", "__log_prob"}, "scale": {"sigma", "__log_prob"}, "z": {"d", "__log_prob"}, "gx": {"gsum"}, "gy": {"gsum"}, "gw": set()}


def make_kernel(kind, keys, step):
    if kind == "rw":
        return gs.RWKernel(keys, initial_step_size=step)
    if kind == "mh":
        def prop(key, s, st, keys=keys):
            pos = {}
            for i, k in enumerate(keys):
                cur = s[k].value if hasattr(s[k], "value") else s[k]
                pos[k] = cur + st * jax.random.normal(jax.random.fold_in(key, i), jnp.shape(cur))
            return MHProposal(pos, jnp.float32(0.0))
        return gs.MHKernel(keys, prop, initial_step_size=step)
    if kind == "iwls":
        return gs.IWLSKernel(keys, initial_step_size=min(step * 2, 1.0))
    if kind == "hmc":
        return gs.HMCKernel(keys, initial_step_size=step * 0.5, num_integration_steps=3)
    if kind == "nuts":
        return gs.NUTSKernel(keys, initial_step_size=step * 0.5, max_treedepth=3)
    raise ValueError(kind)


def starts_from_incoming_state(plan, iface, state0, real, block_keys, sk, V, counters):
    """"Each kernel starts from the model state left by its predecessor": a built-in kernel's
    transition may depend on its own past only through its tuning parameters. The kernel makes one
    transition of its own, a predecessor then moves the *other* blocks, and the next transition is
    made twice with the same key and the same incoming model state — once with the kernel state
    carried over (what the engine does), once with a kernel state initialised afresh at the incoming
    state. With equal tuning parameters the two outcomes must coincide."""
    from liesel.goose.epoch import EpochState

    ep = EpochState(EpochConfig(EpochType.POSTERIOR, 10, 1, None), 1, 3, 1, 2)
    move = {"beta": jnp.asarray([0.35, -0.45], jnp.float32), sk: jnp.float32(0.45), "z": jnp.float32(0.6)}
    k0, k1, k2 = jax.random.split(jax.random.PRNGKey(plan["seed"] % 2**31), 3)
    for b, ker in real:
        kind = plan["kern"].get(b)
        if b not in ("beta", "scale", "z") or kind not in ("rw", "mh", "iwls", "hmc", "nuts"):
            continue
        own = block_keys[b]
        try:
            ks0 = ker.init_state(k0, state0)
            o1 = ker.transition(k1, ks0, state0, ep)
            s_in = iface.update_state({k: v for k, v in move.items() if k not in own}, o1.model_state)
            fresh = ker.init_state(k0, s_in)
            o2 = ker.transition(k2, o1.kernel_state, s_in, ep)
            o2f = ker.transition(k2, fresh, s_in, ep)
        except Exception as e:
            raise SutError(f"kernel-transition|{type(e).__name__}|{kind}|{e}") from e
        tuned_equal = all(np.array_equal(np.asarray(getattr(o1.kernel_state, f)), np.asarray(getattr(fresh, f)))
                          for f in ("step_size", "inverse_mass_matrix") if hasattr(fresh, f))
        if not tuned_equal:
            counters["probe.memoryless_skipped_tuning_differs"] = counters.get("probe.memoryless_skipped_tuning_differs", 0) + 1
            continue
        counters["probe.carried_vs_fresh_kernel_state"] = counters.get("probe.carried_vs_fresh_kernel_state", 0) + 1
        pa, pb = iface.extract_position(own, o2.model_state), iface.extract_position(own, o2f.model_state)
        qa = {"acceptance_prob": o2.info.acceptance_prob, "position_moved": o2.info.position_moved, **pa}
        qb = {"acceptance_prob": o2f.info.acceptance_prob, "position_moved": o2f.info.position_moved, **pb}
        for q in qa:
            a_, b_ = np.asarray(qa[q], F64), np.asarray(qb[q], F64)
            if not np.allclose(a_, b_, rtol=1e-5, atol=1e-6, equal_nan=True):
                V.add("state-left-by-predecessor", f"{kind}/carried-kernel-state",
                      f"{kind} kernel for {own}: after its own transition the other blocks were moved; the next transition (same key, same incoming model state, "
                      f"same step size / mass matrix) gives {q} = {a_.tolist()} with the carried-over kernel state but {b_.tolist()} with a kernel state initialised at the incoming state")
                break


def execute(plan: dict) -> dict:
    V = Violations("C09")
    log = EventLog()
    counters: dict = {}
    liesel = plan["model"] == "liesel"
    model, iface, state0 = build_liesel(plan) if liesel else build_dict(plan)
    sk = scale_key(plan)
    params = ["beta", sk, "z", "gx", "gy", "gw"]
    derived = ["sigma", "mu", "d", "gsum"] if liesel else []
    watch = params + derived
    block_keys = {"beta": ["beta"], "scale": [sk], "z": ["z"]}
    seq = []
    real = []

    def value_node(k):
        return f"{k}_value" if liesel else k

    for b in plan["order"]:
        kind = plan["kern"][b]
        if b == "z" and kind == "gibbs":
            if plan["z_prior"] == "uniform":
                fn = lambda key, ms: {"z": jax.random.uniform(key, (), jnp.float32, -1.5, 1.5)}
            else:
                fn = lambda key, ms: {"z": jax.random.normal(key, (), jnp.float32)}
            ker = gs.GibbsKernel(["z"], fn)
        else:
            k_eff = kind
            if b == "z" and kind == "mh" and liesel:
                k_eff = "rw"
            if kind == "mh" and liesel:
                # user proposal reading the Liesel model state through node names
                keys = block_keys[b]

                def prop(key, ms, st, keys=keys):
                    pos = {k: ms[f"{k}_value"].value + st * jax.random.normal(jax.random.fold_in(key, i), jnp.shape(ms[f"{k}_value"].value)) for i, k in enumerate(keys)}
                    return MHProposal(pos, jnp.float32(0.0))

                ker = gs.MHKernel(keys, prop, initial_step_size=plan["step"][b])
            else:
                ker = make_kernel(k_eff, block_keys[b], plan["step"][b])
        real.append((b, ker))
    if plan["gibbs_pair"]:
        # deterministic, order-sensitive pair: x <- y + 1 ; y <- 2 x
        gx = gs.GibbsKernel(["gx"], lambda key, ms: {"gx": (ms["gy_value"].value if liesel else ms["gy"]) + 1.0})
        gy = gs.GibbsKernel(["gy"], lambda key, ms: {"gy": 2.0 * (ms["gx_value"].value if liesel else ms["gx"])})
        pair = [("gx", gx), ("gy", gy)] if plan["pair_order"] == "xy" else [("gy", gy), ("gx", gx)]
        real = real[:1] + pair[:1] + real[1:] + pair[1:]
        block_keys["gx"], block_keys["gy"] = ["gx"], ["gy"]
    if plan.get("warning_kernel"):
        # owns gx's sibling key "gw" (a free parameter that feeds nothing)
        real.insert(min(1, len(real)), ("gw", WarningStepKernel("gw", liesel)))
        block_keys["gw"] = ["gw"]
    seq.append(("obs", ObserverKernel(watch)))
    for b, ker in real:
        seq.append((b, ker))
        seq.append(("obs", ObserverKernel(watch)))
    kernels = [k for _, k in seq]
    if plan.get("ident_seed") is not None:
        import random as _random

        names = [f"{w}{j}" for j, w in enumerate(_random.Random(plan["ident_seed"]).sample(["zeta", "alpha", "mid", "omega", "beta", "kappa", "eta", "nu", "xi", "tau", "rho", "psi", "chi"], len(kernels)))]
        names = [n.rstrip("0123456789") + "_k" for n in names]
    else:
        names = [f"kernel_{i:02d}" for i in range(len(kernels))]
    for i, k in enumerate(kernels):
        k.identifier = names[i]
        k.set_model(iface)
    C = plan["chains"]
    states = jax.tree_util.tree_map(lambda x: jnp.stack([jnp.asarray(x)] * C), state0)
    tracked = watch + (["_model_log_prob"] if liesel else [])
    try:
        eng = gs.Engine(seeds=jax.random.split(jax.random.PRNGKey(plan["seed"]), C), model_states=states, kernel_sequence=KernelSequence(kernels),
                        epoch_configs=[EpochConfig(EpochType(t), d, th, None) for t, d, th in plan["epochs"]], jitted_sample_duration=10, model=iface,
                        position_keys=tracked, show_progress=False)
        eng.sample_all_epochs()
        res = eng.get_results()
    except Exception as e:
        raise SutError(f"engine|{type(e).__name__}|{plan['model']}|{e}") from e
    infos = res.transition_infos.combine_all().unwrap()
    samples = {k: np.asarray(v) for k, v in res.get_samples().items()}
    T = sum(e[1] for e in plan["epochs"][1:])
    obs_ids = [names[i] for i, (b, _) in enumerate(seq) if b == "obs"]
    seen = [{k: np.asarray(v) for k, v in infos[o].seen.items()} for o in obs_ids]  # each (C, T, ...)
    real_ids = [(b, names[i]) for i, (b, _) in enumerate(seq) if b != "obs"]

    def eq(a, b):
        return a.tobytes() == b.tobytes()

    n_states = 0
    for c in range(C):
        for t in range(T):
            # carry-over between iterations: first observer sees the state the previous iteration left
            for k in watch:
                prev = seen[-1][k][c, t - 1] if t > 0 else np.asarray(samples[k][c, 0])
                if not eq(np.asarray(seen[0][k][c, t]), np.asarray(prev, seen[0][k].dtype)):
                    V.add("hand-over", "between-iterations", f"chain {c} iteration {t}: {k} at the start of the iteration is {seen[0][k][c, t].tolist()}, the previous iteration left {np.asarray(prev).tolist()}")
            for i, (b, kid) in enumerate(real_ids):
                before, after = seen[i], seen[i + 1]
                own = set(block_keys[b])
                allowed = own | (DESC["scale" if b == "scale" else b] if liesel else set()) | {"__log_prob"}
                for k in list(watch) + ["__log_prob"]:
                    if k not in allowed and not eq(before[k][c, t], after[k][c, t]):
                        V.add("block-isolation", f"{plan['kern'].get(b, 'gibbs')}/{k if k in params else 'derived'}",
                              f"chain {c} iteration {t}: kernel {kid} for block {block_keys[b]} changed {k} from {before[k][c, t].tolist()} to {after[k][c, t].tolist()}")
                mv = int(np.asarray(infos[kid].position_moved)[c, t])
                if mv == 0 and b in ("beta", "scale", "z"):
                    for k in list(watch) + ["__log_prob"]:
                        # parameters bit for bit; derived quantities and the log-probability may be
                        # recomputed by the kernel's write-back in another XLA fusion context (ulp level)
                        same = eq(before[k][c, t], after[k][c, t]) if k in params else np.allclose(before[k][c, t], after[k][c, t], rtol=2e-6, atol=1e-6)
                        if not same:
                            V.add("rejected-unchanged", plan["kern"].get(b, "gibbs"), f"chain {c} iteration {t}: kernel {kid} reports a rejection but {k} changed from {np.asarray(before[k][c, t]).tolist()} to {np.asarray(after[k][c, t]).tolist()}")
                    counters["probe.rejections"] = counters.get("probe.rejections", 0) + 1
                elif mv == 1:
                    counters["probe.acceptances"] = counters.get("probe.acceptances", 0) + 1
            # the tracked position of the iteration is the state after all kernels
            for k in watch:
                if not eq(np.asarray(samples[k][c, t + 1]), np.asarray(seen[-1][k][c, t], samples[k].dtype)):
                    V.add("hand-over", "stored-position", f"chain {c} iteration {t}: stored {k} = {samples[k][c, t + 1].tolist()}, last kernel left {seen[-1][k][c, t].tolist()}")
            # a kernel that reports a warning code must still hand its state to its successor
            if plan.get("warning_kernel"):
                w0, w1 = F64(seen[0]["gw"][c, t]), F64(seen[-1]["gw"][c, t])
                if w1 != w0 + 1.0:
                    V.add("state-left-by-predecessor", "kernel-with-nonzero-error-code",
                          f"chain {c} iteration {t} (global time {t + 1}, code {2 * ((t + 1) % 2)}): the kernel owning gw adds 1 in every transition, but gw went {w0} -> {w1}")
            # deterministic pair: order observable
            if plan["gibbs_pair"]:
                x0, y0 = F64(seen[0]["gx"][c, t]), F64(seen[0]["gy"][c, t])
                ex, ey = (y0 + 1, 2 * (y0 + 1)) if plan["pair_order"] == "xy" else (2 * x0 + 1, 2 * x0)
                gxv, gyv = F64(seen[-1]["gx"][c, t]), F64(seen[-1]["gy"][c, t])
                if not (np.isclose(gxv, ex, rtol=1e-5) and np.isclose(gyv, ey, rtol=1e-5)) and np.isfinite(ex) and abs(ex) < 1e30:
                    V.add("kernel-order", plan["pair_order"], f"chain {c} iteration {t}: deterministic pair gave (gx, gy) = ({gxv}, {gyv}), configured order {plan['pair_order']} gives ({ex}, {ey})")
            # coherence of every observed state
            for i in range(len(seen)):
                p = {k: seen[i][k][c, t] for k in params}
                ref = ref_quantities(plan, p)
                for k in derived + ["__log_prob"]:
                    g = np.asarray(seen[i][k][c, t], F64)
                    e_ = np.asarray(ref[k], F64)
                    tol = 2e-4 * (1 + np.abs(e_)) if k == "__log_prob" else 2e-5 * (1 + np.abs(e_))
                    if k == "gsum" and not np.all(np.isfinite(e_)):
                        continue
                    if not np.all(np.abs(g - e_) <= tol):
                        after_kernel = "initial hand-over" if i == 0 else f"kernel {real_ids[i - 1][1]} ({plan['kern'].get(real_ids[i - 1][0], 'gibbs')}, block {block_keys[real_ids[i - 1][0]]})"
                        V.add("coherence", f"{'log-prob' if k == '__log_prob' else k}/{plan['model']}",
                              f"chain {c} iteration {t} after {after_kernel}: {k} carried in the model state is {g.tolist() if g.size < 6 else g.ravel()[:4].tolist()}, recomputed from the stored parameters: {e_.tolist() if e_.size < 6 else e_.ravel()[:4].tolist()}")
                n_states += 1
            if liesel:
                lp_tracked = F64(samples["_model_log_prob"][c, t + 1])
                if abs(lp_tracked - F64(seen[-1]["__log_prob"][c, t])) > 1e-6 * (1 + abs(lp_tracked)):
                    V.add("coherence", "tracked-log-prob", f"chain {c} iteration {t}: tracked _model_log_prob {lp_tracked} vs interface log_prob {seen[-1]['__log_prob'][c, t]}")
        if V.items:
            break
    if not V.items:
        starts_from_incoming_state(plan, iface, state0, real, block_keys, sk, V, counters)
    if plan["gibbs_pair"]:
        counters["probe.order_sensitive_pair"] = 1
    counters["states_checked"] = n_states
    counters[f"probe.model_{plan['model']}"] = 1
    for b in plan["order"]:
        counters[f"probe.kernel_{plan['kern'][b]}"] = counters.get(f"probe.kernel_{plan['kern'][b]}", 0) + 1
    log.add("final", {k: np.asarray(v[:, -1]).tolist() for k, v in samples.items() if k in params})
    return {"violations": V.items, "digest": log.digest(), "tail": log.tail[:10],
            "sig": sha(canon([plan["model"], plan["order"], plan["kern"], plan["scale_param"], plan["z_prior"], plan["gibbs_pair"], plan["pair_order"]]))[:16],
            "nontrivial": n_states > 0, "counters": counters, "simtime": T * C * len(real_ids), "subbatch": "F2-zero-density-region" if plan["z_prior"] == "uniform" else "fault-free"}

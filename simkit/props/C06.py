"""C06 — proposal corrections of RW, IWLS and MH kernels satisfy detailed balance (world S)."""

from __future__ import annotations

import copy

import jax
import jax.numpy as jnp
import numpy as np

import liesel.goose as gs
from liesel.goose.epoch import EpochConfig, EpochType
from liesel.goose.kernel_sequence import KernelSequence
from liesel.goose.mh_kernel import MHProposal
from simkit import stat_world as S
from simkit.core import EventLog, SutError, Violations, canon, sha

RUN_CAP_S = 900
F64 = np.float64


def gen_plan(rng, tier: str, idx: int) -> dict:
    kernel = ["rw", "iwls", "iwls_user_info", "mh_sym", "mh_indep", "mh_mult", "iwls"][idx % 7]
    fam = rng.choice(["gaussian", "logistic", "poisson"])
    p = rng.choice([1, 2, 3])
    split = rng.randint(1, p - 1) if (p >= 2 and rng.random() < 0.4 and kernel in ("rw", "iwls", "mh_sym")) else None
    return {"kernel": kernel, "family": fam, "n": rng.randint(6, 25), "p": p, "tau": rng.choice([0.7, 1.5, 3.0]), "sigma": rng.choice([0.5, 1.0, 2.0]),
            "data_seed": rng.randrange(10**6), "xscale": rng.choice([0.5, 1.0]), "split": split, "liesel": (kernel in ("rw", "iwls") and split is None and rng.random() < 0.6),
            "step": rng.choice([0.2, 0.5, 0.8, 1.0, 1.5, 1.8]), "chains": rng.choice([128, 256]) if tier == "quick" else rng.choice([256, 512, 1024]),
            "iters": rng.choice([10, 20]) if tier == "quick" else rng.choice([20, 50]), "seed": rng.randrange(2**31),
            "epoch_type": rng.choice([3, 4])}


def shrink_candidates(plan):
    for k, v in (("chains", 16), ("iters", 5), ("liesel", False), ("split", None), ("p", 1)):
        if plan[k] != v and not (k == "p" and plan["split"] is not None):
            p = copy.deepcopy(plan)
            p[k] = v
            yield p


def user_info_matrix(p):
    A = np.eye(p) * 2.0
    for i in range(p - 1):
        A[i, i + 1] = A[i + 1, i] = 0.5
    return A


def execute(plan: dict) -> dict:
    V = Violations("C06")
    log = EventLog()
    counters: dict = {}
    M = S.Regression(plan["family"], plan["n"], plan["p"], plan["tau"], plan["sigma"], plan["data_seed"], plan["xscale"])
    rs = np.random.RandomState(plan["seed"] % 2**31)
    C, T, s = plan["chains"], plan["iters"], plan["step"]
    beta_true = M.sample_prior(rs, 1)[0]
    y = M.sample_y(rs, beta_true[None, :])[0]
    x0 = (M.sample_prior(rs, C) * 0.5).astype(np.float32)
    kind = plan["kernel"]
    p = plan["p"]
    if plan["liesel"]:
        model = M.liesel_model()
        model.vars["y"].value = jnp.asarray(y, jnp.float32)
        iface = gs.LieselInterface(model)
        keys = ["beta"]
        st0 = model.state
        states = jax.tree_util.tree_map(lambda v: jnp.stack([jnp.asarray(v)] * C), st0)
        states = jax.vmap(iface.update_state)({"beta": jnp.asarray(x0)}, states)
        getx = lambda smp: np.asarray(smp["beta"], F64)
    else:
        iface, keys = M.dict_interface(plan["split"])
        if plan["split"] is None:
            states = {"beta": jnp.asarray(x0), "y": jnp.broadcast_to(jnp.asarray(y, jnp.float32), (C, M.n))}
            getx = lambda smp: np.asarray(smp["beta"], F64)
        else:
            k = plan["split"]
            b0 = x0[:, :k] if k > 1 else x0[:, 0]
            b1 = x0[:, k:] if p - k > 1 else x0[:, k]
            states = {"b0": jnp.asarray(b0), "b1": jnp.asarray(b1), "y": jnp.broadcast_to(jnp.asarray(y, jnp.float32), (C, M.n))}
            getx = lambda smp: np.concatenate([np.asarray(smp["b0"], F64).reshape(C, -1, k), np.asarray(smp["b1"], F64).reshape(C, -1, p - k)], axis=2)
    A = user_info_matrix(p)
    m_ind, v_ind = 0.3, 1.2

    def flat(sdict):
        if plan["liesel"]:
            return sdict["beta_value"].value
        if plan["split"] is None:
            return jnp.atleast_1d(sdict["beta"])
        return jnp.concatenate([jnp.atleast_1d(sdict["b0"]), jnp.atleast_1d(sdict["b1"])])

    if kind == "rw":
        ker = gs.RWKernel(keys, initial_step_size=s)
    elif kind == "iwls":
        ker = gs.IWLSKernel(keys, initial_step_size=s)
    elif kind == "iwls_user_info":
        # a user-supplied information that depends on the kernel's own position:
        # F(x) = A * (1 + 0.5 tanh(x_0)^2)
        A32 = jnp.asarray(A, jnp.float32)

        def chol_info_fn(ms):
            x = flat(ms)
            return jnp.linalg.cholesky(A32 * (1.0 + 0.5 * jnp.tanh(x[0]) ** 2))

        ker = gs.IWLSKernel(keys, chol_info_fn=chol_info_fn, initial_step_size=s)
    elif kind == "mh_sym":
        def prop(key, ms, step):
            pos = {}
            for i, k_ in enumerate(keys):
                cur = ms[k_]
                pos[k_] = cur + step * jax.random.normal(jax.random.fold_in(key, i), jnp.shape(cur))
            return MHProposal(pos, jnp.float32(0.0))
        ker = gs.MHKernel(keys, prop, initial_step_size=s)
    elif kind == "mh_indep":
        def prop(key, ms, step):
            cur = ms["beta"]
            new = m_ind + jnp.sqrt(v_ind) * jax.random.normal(key, jnp.shape(cur))
            lq = lambda b: jnp.sum(-0.5 * (b - m_ind) ** 2 / v_ind)
            return MHProposal({"beta": new}, lq(cur) - lq(new))  # log q(x | x') - log q(x' | x)
        ker = gs.MHKernel(["beta"], prop, initial_step_size=s)
    else:  # multiplicative random walk on |beta| with sign kept: q(x'|x) lognormal around x
        def prop(key, ms, step):
            cur = ms["beta"]
            new = cur * jnp.exp(step * jax.random.normal(key, jnp.shape(cur)))
            return MHProposal({"beta": new}, jnp.sum(jnp.log(jnp.abs(new)) - jnp.log(jnp.abs(cur))))
        ker = gs.MHKernel(["beta"], prop, initial_step_size=s)
    ker.identifier = "kernel_00"
    ker.set_model(iface)
    try:
        eng = gs.Engine(seeds=jax.random.split(jax.random.PRNGKey(plan["seed"]), C), model_states=states, kernel_sequence=KernelSequence([ker]),
                        epoch_configs=[EpochConfig(EpochType.INITIAL_VALUES, 1, 1, None), EpochConfig(EpochType(plan["epoch_type"]), T, 1, None)],
                        jitted_sample_duration=T, model=iface, position_keys=keys, show_progress=False)
        eng.sample_all_epochs()
        res = eng.get_results()
    except Exception as e:
        raise SutError(f"engine|{type(e).__name__}|{kind}|{e}") from e
    X = getx(res.get_samples()).reshape(C, T + 1, p)
    ti = res.transition_infos.combine_all().unwrap()["kernel_00"]
    ap = np.asarray(ti.acceptance_prob, F64)
    mv = np.asarray(ti.position_moved).astype(int)
    xb, xa = X[:, :-1], X[:, 1:]
    if np.any((ap < 0) | (ap > 1) | ~np.isfinite(ap)):
        c, t = np.argwhere((ap < 0) | (ap > 1) | ~np.isfinite(ap))[0]
        V.add("acceptance-prob-range", kind, f"chain {c} transition {t}: {ap[c, t]}")
    acc = mv == 1
    lpb, lpa = M.logpost(xb, y), M.logpost(xa, y)

    def logq(to, frm):
        """log q(to | frm), float64 re-statement of the kernel's proposal density."""
        if kind in ("rw", "mh_sym"):
            return np.zeros(to.shape[:-1])
        if kind in ("iwls", "iwls_user_info"):
            F = M.info(frm, y) if kind == "iwls" else A * (1.0 + 0.5 * np.tanh(frm[..., 0]) ** 2)[..., None, None]
            mu = frm + (s**2 / 2) * np.linalg.solve(F, M.score(frm, y)[..., None])[..., 0]
            P = F / s**2
            d = to - mu
            quad = np.einsum("...i,...ij,...j->...", d, P, d)
            return -0.5 * quad + 0.5 * np.linalg.slogdet(P)[1] - 0.5 * p * np.log(2 * np.pi)
        if kind == "mh_indep":
            return (-0.5 * (to - m_ind) ** 2 / v_ind).sum(-1)
        # multiplicative: log q(to|frm) = lognormal density of |to| around |frm| -> ratio log|to| - log|frm| enters the correction
        return -np.log(np.abs(to)).sum(-1) - 0.5 * ((np.log(np.abs(to)) - np.log(np.abs(frm))) ** 2).sum(-1) / s**2

    with np.errstate(all="ignore"):
        log_ratio = lpa - lpb + logq(xb, xa) - logq(xa, xb)
        log_alpha_ref = np.minimum(0.0, log_ratio)
    alpha_ref = np.exp(log_alpha_ref)
    with np.errstate(divide="ignore"):
        log_ap = np.log(ap)
    ok = (np.abs(log_ap - log_alpha_ref) <= 5e-3 + 2e-3 * np.abs(log_alpha_ref)) | (np.abs(ap - alpha_ref) <= 5e-3)
    bad = acc & ~ok & np.isfinite(log_ratio)
    if bad.any():
        c, t = np.argwhere(bad)[0]
        V.add("acceptance-prob-equals-mh-ratio", f"{kind}/{plan['family']}" + ("/liesel" if plan["liesel"] else "") + ("/split" if plan["split"] else ""),
              f"chain {c} transition {t} (accepted): reported acceptance probability {ap[c, t]:.6f}; min(1, pi(x')q(x|x') / pi(x)q(x'|x)) = {alpha_ref[c, t]:.6f} "
              f"with x = {xb[c, t].tolist()}, x' = {xa[c, t].tolist()}, step size {s} ({int(bad.sum())} of {int(acc.sum())} accepted transitions disagree)")
    # rejected transitions keep the state
    if np.any(~acc & np.any(xa != xb, axis=-1)):
        V.add("rejected-unchanged", kind, "a rejected transition changed the position")
    n_acc = int(acc.sum())
    counters["accepted_transitions_checked"] = n_acc
    counters["rejected_transitions_range_checked"] = int((~acc).sum())
    counters["probe.ratio_below_one_among_accepted"] = int((acc & (log_ratio < -0.05)).sum())
    counters[f"probe.kernel_{kind}"] = 1
    counters["probe.liesel_model"] = int(plan["liesel"])
    counters["probe.several_keys"] = int(plan["split"] is not None)
    log.add("summary", kind, n_acc, float(np.round(ap.mean(), 5)))
    return {"violations": V.items, "digest": log.digest(), "tail": log.tail[:10],
            "sig": sha(canon([kind, plan["family"], plan["p"], plan["split"], plan["liesel"], plan["step"], plan["tau"], plan["sigma"], plan["n"]]))[:16],
            "nontrivial": n_acc > 0, "counters": counters, "simtime": C * T, "subbatch": "fault-free"}

"""C12 — mass-matrix adaptation is aligned with the parameters it scales (world E, real kernels)."""

from __future__ import annotations

import copy
import itertools

import jax
import jax.numpy as jnp
import numpy as np
from jax.flatten_util import ravel_pytree

import liesel.goose as gs
from liesel.goose.epoch import EpochConfig, EpochType
from liesel.goose.kernel_sequence import KernelSequence
from simkit.core import EventLog, SutError, Violations, canon, sha

RUN_CAP_S = 900
NAMES = ["z", "a", "m", "b", "y", "k"]


def gen_plan(rng, tier: str, idx: int) -> dict:
    nkeys = rng.choice([1, 2, 2, 3, 3])
    names = rng.sample(NAMES, nkeys)
    scales = rng.sample([1.0, 100.0, 1e4, 0.01, 10.0], nkeys)
    keys = [{"name": n, "shape": rng.choice([[], [], [2], [3], [2, 2], [2, 3]]), "scale": s} for n, s in zip(names, scales)]
    if nkeys == 1:
        # a block with a single key, mostly with a single flat coordinate (1 x 1 "dense" matrix);
        # small scales, where the regulariser is not negligible against the variance
        keys[0]["shape"] = rng.choice([[], [], [1], [2]])
        keys[0]["scale"] = rng.choice([0.01, 0.01, 0.1, 1.0, 100.0])
    order = list(range(nkeys))
    rng.shuffle(order)
    perm2 = list(range(nkeys))
    rng.shuffle(perm2)
    other = None
    if rng.random() < 0.5:
        other = {"name": "o_" + rng.choice(["w", "c", "q"]), "shape": rng.choice([[], [2]]), "scale": rng.choice([1e3, 1e-2, 5.0]),
                 "first": rng.random() < 0.5}
    n_slow = rng.randint(1, 2 if tier == "quick" else 3)
    eps = []
    if rng.random() < 0.4:
        eps.append([1, 20, 1])
    for _ in range(n_slow):
        eps.append([2, rng.choice([40, 60, 80]), 1])
        if rng.random() < 0.3:
            eps.append([3, 20, 1])
    eps.append([rng.choice([1, 3, 4]), 20, 1])
    return {"kernel": rng.choice(["hmc", "nuts"]), "diag": rng.random() < 0.5, "keys": keys, "order": order, "order2": perm2,
            "other": other, "chains": rng.randint(1, 3), "seed": rng.randrange(2**31), "epochs": [[0, 1, 1]] + eps, "chunk": 20,
            "twin": rng.random() < 0.5}


def shrink_candidates(plan):
    if plan["twin"]:
        p = copy.deepcopy(plan)
        p["twin"] = False
        yield p
    if plan["other"]:
        p = copy.deepcopy(plan)
        p["other"] = None
        yield p
    if plan["chains"] > 1:
        p = copy.deepcopy(plan)
        p["chains"] = 1
        yield p
    slow = [i for i, e in enumerate(plan["epochs"]) if e[0] == 2]
    if len(slow) > 1:
        p = copy.deepcopy(plan)
        del p["epochs"][slow[-1]]
        yield p
    for i, e in enumerate(plan["epochs"]):
        if e[0] in (1, 3) and i < len(plan["epochs"]) - 1:
            p = copy.deepcopy(plan)
            del p["epochs"][i]
            yield p
    for i, k in enumerate(plan["keys"]):
        if k["shape"]:
            p = copy.deepcopy(plan)
            p["keys"][i]["shape"] = []
            yield p
    if len(plan["keys"]) > 2:
        p = copy.deepcopy(plan)
        drop = len(plan["keys"]) - 1
        del p["keys"][drop]
        p["order"] = [o for o in p["order"] if o != drop]
        p["order2"] = [o for o in p["order2"] if o != drop]
        yield p
    if plan["kernel"] == "nuts":
        p = copy.deepcopy(plan)
        p["kernel"] = "hmc"
        yield p


def run(plan, order):
    keys = plan["keys"]
    def entry_scales(k):
        # every entry of a vector / matrix parameter has its own scale, so that a transposed or
        # permuted flattening is visible in the tuned variances
        n = int(np.prod(k["shape"])) if k["shape"] else 1
        return (np.float32(k["scale"]) * (1.0 + 0.7 * np.arange(n, dtype=np.float32))).reshape(tuple(k["shape"]))

    scale = {k["name"]: entry_scales(k) for k in keys}
    if plan["other"]:
        scale[plan["other"]["name"]] = np.float32(plan["other"]["scale"])

    def lp(s):
        return sum(-0.5 * jnp.sum((s[n] / sc) ** 2) for n, sc in scale.items())

    model = gs.DictInterface(lp)
    listed = [keys[i]["name"] for i in order]
    smin = float(min(k["scale"] for k in keys))
    if plan["kernel"] == "hmc":
        ker = gs.HMCKernel(listed, initial_step_size=0.7 * smin, num_integration_steps=4, mm_diag=plan["diag"])
    else:
        ker = gs.NUTSKernel(listed, initial_step_size=0.7 * smin, max_treedepth=3, mm_diag=plan["diag"])
    kernels = [ker]
    if plan["other"]:
        ok = gs.RWKernel([plan["other"]["name"]], initial_step_size=float(plan["other"]["scale"]))
        kernels = [ok, ker] if plan["other"]["first"] else [ker, ok]
    for i, k in enumerate(kernels):
        k.identifier = f"kernel_{i:02d}"
        k.set_model(model)
    C = plan["chains"]
    rs = np.random.RandomState(plan["seed"] % 2**31)
    state = {}
    for k in keys + ([plan["other"]] if plan["other"] else []):
        state[k["name"]] = jnp.asarray((0.3 * rs.normal(size=[C] + k["shape"]) * np.asarray(scale[k["name"]])).astype(np.float32))
    try:
        eng = gs.Engine(seeds=jax.random.split(jax.random.PRNGKey(plan["seed"]), C), model_states=state,
                        kernel_sequence=KernelSequence(kernels), epoch_configs=[EpochConfig(EpochType(e[0]), e[1], e[2], None) for e in plan["epochs"]],
                        jitted_sample_duration=plan["chunk"], model=model, position_keys=None, store_kernel_states=True, show_progress=False)
        eng.sample_all_epochs()
        res = eng.get_results()
    except Exception as e:
        raise SutError(f"engine|{type(e).__name__}|{plan['kernel']}|{e}") from e
    samples = {k: np.asarray(v) for k, v in res.get_samples().items()}
    ki = kernels.index(ker)
    ks = res.kernel_states.unwrap().combine_all().unwrap()[ki]
    return samples, np.asarray(ks.inverse_mass_matrix), np.asarray(ks.step_size)


def flat_history(plan, samples, lo, hi):
    """(chains, T, d) matrix of the kernel's own parameters in ravel_pytree order (sorted keys,
    each leaf row-major) — the order of the flat coordinates the kernel's integrator uses."""
    names = sorted(k["name"] for k in plan["keys"])
    check = ravel_pytree({n: jnp.zeros(next(k["shape"] for k in plan["keys"] if k["name"] == n) or ()) for n in names})[0]
    cols = [samples[n][:, lo:hi].reshape(samples[n].shape[0], hi - lo, -1) for n in names]
    out = np.concatenate(cols, axis=2).astype(np.float64)
    assert out.shape[2] == check.shape[0]
    return out, names


def check_run(plan, samples, imm, V, counters, order):
    label = "listed order " + str([plan["keys"][i]["name"] for i in order])
    C = plan["chains"]
    t = 1  # stored index of the first transition
    eps = plan["epochs"][1:]
    n_checked = 0
    for ei, e in enumerate(eps):
        lo, hi = t, t + e[1]
        if e[0] == 2 and ei + 1 < len(eps):
            H, names = flat_history(plan, samples, lo, hi)
            got = imm[:, hi]  # kernel state after the first transition of the next epoch
            for c in range(C):
                if plan["diag"]:
                    ref = H[c].var(axis=0, ddof=1) + 1e-3
                else:
                    ref = np.atleast_2d(np.cov(H[c], rowvar=False)) + 1e-3 * np.eye(H.shape[2])
                g = got[c].astype(np.float64)
                if g.shape != ref.shape:
                    V.add("mass-matrix", "shape", f"{label}: inverse mass matrix has shape {g.shape}, expected {ref.shape}")
                    continue
                scale = np.sqrt(np.outer(np.diag(ref), np.diag(ref))) if not plan["diag"] else ref
                # liesel computes the (co)variance in float32: subtracting the mean of values of size |m|
                # costs about eps32 * |m_i| |m_j| of absolute accuracy (slowly moving chains far from 0)
                m = np.abs(H[c].mean(axis=0))
                cancel = 1e-6 * (np.outer(m, m) if not plan["diag"] else m * m)
                if not np.all(np.abs(g - ref) <= 2e-3 * scale + 1e-6 + cancel):
                    listed = [plan["keys"][i]["name"] for i in order]
                    d = np.diag(g) if not plan["diag"] else g
                    rd = np.diag(ref) if not plan["diag"] else ref
                    aligned = "sorted" if listed == sorted(listed) else "unsorted"
                    V.add("mass-matrix", f"{'diag' if plan['diag'] else 'dense'}/{aligned}-keys",
                          f"{label}: after slow-adaptation epoch {ei + 1} chain {c}: tuned inverse mass (diagonal) {d.tolist()} but the regularised sample variances of that "
                          f"epoch's history in flat-coordinate order {names} are {rd.tolist()} (position keys were listed as {listed})")
                n_checked += 1
            # untouched outside slow adaptation
        elif ei + 1 < len(eps):
            if not np.array_equal(imm[:, hi], imm[:, hi - 1]):
                V.add("mass-matrix", "changed-outside-slow-adaptation", f"{label}: inverse mass matrix changed after a {['', 'FAST', 'SLOW', 'BURNIN', 'POSTERIOR'][e[0]]} epoch")
        t = hi
    counters["mass_matrices_checked"] = counters.get("mass_matrices_checked", 0) + n_checked


def execute(plan: dict) -> dict:
    V = Violations("C12")
    log = EventLog()
    counters: dict = {}
    samples, imm, step = run(plan, plan["order"])
    check_run(plan, samples, imm, V, counters, plan["order"])
    log.add("imm", np.asarray(imm[:, -1]).tolist())
    if plan["twin"] and plan["order2"] != plan["order"] and not V.items:
        s2, imm2, _ = run(plan, plan["order2"])
        check_run(plan, s2, imm2, V, counters, plan["order2"])
        if not V.items and not np.allclose(imm[:, -1], imm2[:, -1], rtol=5e-3, atol=1e-6):
            V.add("key-order-independence", "diag" if plan["diag"] else "dense", "the tuned inverse mass matrix depends on the order in which the position keys were listed")
        counters["probe.permuted_twin"] = 1
    listed = [plan["keys"][i]["name"] for i in plan["order"]]
    counters["probe.non_alphabetical_key_order"] = int(listed != sorted(listed))
    counters["probe.dense"] = int(not plan["diag"])
    counters["probe.single_flat_coordinate"] = int(sum(int(np.prod(k["shape"])) if k["shape"] else 1 for k in plan["keys"]) == 1)
    counters["probe.coexisting_kernel"] = int(plan["other"] is not None)
    counters["probe.multiple_slow_epochs"] = int(sum(1 for e in plan["epochs"] if e[0] == 2) > 1)
    T = sum(e[1] for e in plan["epochs"][1:])
    return {"violations": V.items, "digest": log.digest(), "tail": log.tail[:10],
            "sig": sha(canon([plan["kernel"], plan["diag"], [(k["name"], k["shape"], k["scale"]) for k in plan["keys"]], plan["order"], plan["epochs"], bool(plan["other"])]))[:16],
            "nontrivial": counters.get("mass_matrices_checked", 0) > 0, "counters": counters, "simtime": T * plan["chains"], "subbatch": "fault-free"}

"""C14 — transforming a variable preserves the model (change of variables), world M."""

from __future__ import annotations

import copy

import jax.numpy as jnp
import numpy as np

from simkit import density_oracle as DO
from simkit import model_world as M
from simkit import refdensity as R
from simkit.core import EventLog, SutError, Violations, canon, sha
from simkit.props import C01, C02

RUN_CAP_S = 900


def gen_plan(rng, tier: str, idx: int) -> dict:
    # every run has at least one transformed variable
    for _ in range(50):
        spec = M.gen_spec(rng, n_items=(3, 12), p_dist=0.85, p_transform=0.7, transforms=M.HOWS, prefixes=("q", "u"),
                          families=["gamma", "exponential", "beta", "lognormal", "halfnormal", "invgamma", "normal", "normal"])
        if any(it.get("transform") for it in spec):
            break
    # "initial values in the support" written as integers (Var(2, dist), np.array([1, 2, 3])): the new
    # variable starts at the real-valued inverse image, whatever the dtype of the initial value
    for it in spec:
        # (only where the bijector is Exp: TFP's Softplus and every bijector with float parameters
        # refuse integer input themselves, before liesel is involved)
        tr_ = it.get("transform")
        exp_bij = tr_ and ((tr_["how"] == "instance" and tr_["bij"] == "exp") or (tr_["how"] in ("default", "auto") and it["dist"]["fam"] == "lognormal"))
        idx_ = spec.index(it)
        referenced = any(r_.get("i") == idx_ for other in spec for r_ in M.item_refs(other))
        # (and only variables nothing else reads: as a parameter of another TFP object an int is refused, too)
        if exp_bij and it.get("vk") == "pos" and not referenced and rng.random() < 0.6:
            if not (it.get("shape") or []):
                # a plain Python int (typed int32 arrays are refused by TFP's own bijectors)
                it["val"] = rng.randint(1, 4)
                it["int_init"] = True
    ops = C01.interleave(rng, spec, rng.randint(1, 3), faults=False, max_ops=rng.randint(4, 20))
    return {"spec": spec, "ops": ops, "user": {}, "per_obs_twin": False}


abbreviate = C02.abbreviate


def shrink_candidates(plan):
    for p in C02.shrink_candidates(plan):
        if any(it.get("transform") for it in p["spec"]):
            yield p


def check_at_transform(spec, model, V, counters):
    """Post-conditions of the build op 'transform' (manual entry points and auto-transform)."""
    for it in spec:
        tr = it.get("transform")
        if not tr:
            continue
        name, tn = it["name"], f"{it['name']}_transformed"
        how = tr["how"]
        counters[f"probe.entry_{how}"] = counters.get(f"probe.entry_{how}", 0) + 1
        if tn not in model.vars:
            V.add("transformed-var-missing", how, f"{tn} is not a variable of the model")
            continue
        orig, tv = model.vars[name], model.vars[tn]
        x0 = np.asarray(it["val"], np.float64)
        with M.quiet_counters(model):
            xv = np.asarray(orig.value, np.float64)
            t0 = np.asarray(tv.value, np.float64)
        if xv.shape != x0.shape or not np.allclose(xv, x0, rtol=2e-5, atol=2e-6):
            V.add("original-value-unchanged", how, f"{name} had value {x0.tolist()}, after the transformation it is {xv.tolist()}")
        # it is the bijector image of the new variable (closed form, float64)
        p = {}
        rvals = M.RefGraph(spec)
        rvals.sync_transformed(model)
        refv = rvals.eval()

        def rv(r):
            if "c" in r:
                return np.float64(r["c"])
            src = spec[r["i"]]
            return np.asarray(refv[f"{src['name']}_value"] if src["k"] == "var" else refv[src["name"]], np.float64)

        p = {k: rv(r) for k, r in it["dist"]["args"].items()}
        if tr["bij"] is None:
            fwd, _ = R.default_bijector(it["dist"]["fam"], p)
            img = fwd(t0)
        else:
            img = R.bij_forward(tr["bij"], t0, rv(tr["arg"]) if tr.get("arg") else None)
        if not np.allclose(img, xv, rtol=5e-5, atol=5e-6):
            V.add("image-of-new-variable", f"{how}/{tr['bij'] or 'default:' + it['dist']['fam']}",
                  f"{name} = {xv.tolist()} but b({tn} = {t0.tolist()}) = {np.asarray(img).tolist()}")
        # flags and structure
        want_param = it.get("role") == "param"
        if bool(tv.parameter) != want_param or orig.parameter:
            V.add("parameter-flag-moves", how, f"original role {it.get('role')}: {tn}.parameter = {tv.parameter}, {name}.parameter = {orig.parameter}")
        if bool(orig.observed) != (it.get("role") == "obs"):
            V.add("observed-flag-kept", how, f"{name}.observed = {orig.observed}, was {it.get('role') == 'obs'}")
        if orig.has_dist or orig.dist_node is not None:
            V.add("original-keeps-no-distribution", how, f"{name} still has a distribution node")
        if not orig.weak or not tv.strong:
            V.add("original-weak-new-strong", how, f"{name}.weak = {orig.weak}, {tn}.strong = {tv.strong}")
        if tv.dist_node is None:
            V.add("new-var-has-distribution", how, f"{tn} has no distribution")
        elif bool(tv.dist_node.per_obs) != bool(it["dist"].get("per_obs", True)):
            V.add("per-obs-carried", how, f"{tn}.dist_node.per_obs = {tv.dist_node.per_obs}, original {it['dist'].get('per_obs', True)}")


def check_image(spec, model, sim, V, where, counters):
    """At every later step: the original variable is the image b(t) of the new variable under the
    bijector at the *current* parameter values (closed form, float64)."""
    with M.quiet_counters(model):
        if any(n.outdated for n in model.nodes.values()):
            return
        rv = sim.ref.eval()
    T = DO.ref_terms(spec, rv)
    for t in T["terms"]:
        if t["kind"] != "transformed":
            continue
        with M.quiet_counters(model):
            xv = np.asarray(model.vars[t["orig"]].value, np.float64)
        x_ref = np.asarray(t["x"], np.float64)
        if xv.shape != x_ref.shape and xv.size != x_ref.size:
            V.add("image-of-new-variable", "shape", f"{where}: {t['orig']} has shape {xv.shape}, b(t) has shape {x_ref.shape}")
        elif not np.allclose(xv.reshape(x_ref.shape), x_ref, rtol=5e-5, atol=5e-6):
            it = next(i for i in spec if i["name"] == t["orig"])
            V.add("image-of-new-variable", f"later-step/{it['transform']['how']}/{it['transform']['bij'] or 'default:' + it['dist']['fam']}",
                  f"{where}: {t['orig']} = {xv.tolist()} but b({t['name']} = {np.asarray(t['t']).tolist()}) = {x_ref.tolist()} at the current parameter values")
        counters["image_checks"] = counters.get("image_checks", 0) + 1


def execute(plan: dict) -> dict:
    V = Violations("C14")
    log = EventLog()
    counters: dict = {}
    spec = plan["spec"]
    b, model = C02.build(spec, {})
    check_at_transform(spec, model, V, counters)
    sim = M.ModelSim(spec, model, V, log)
    sim.check_coherence("build:#-1")
    C02.check_density(spec, model, sim, {}, V, "build", counters)
    for i, op in enumerate(plan["ops"]):
        if V.items:
            break
        sim.apply(i, op)
        C02.check_density(spec, model, sim, {}, V, f"{op[0]}:#{i}", counters)
        check_image(spec, model, sim, V, f"{op[0]}:#{i}", counters)
        if op[0] == "assign" and "_transformed" in op[1]:
            counters["probe.assigned_new_variable"] = counters.get("probe.assigned_new_variable", 0) + 1
    counters.update({k: v for k, v in sim.counters.items() if k.startswith("op.")})
    counters["probe.model_dependent_bijector_arg"] = int(any(it.get("transform") and (it["transform"].get("arg") or {}).get("i") is not None for it in spec))
    counters["probe.model_dependent_dist_params"] = int(any(it.get("transform") and any("i" in r for r in it["dist"]["args"].values()) for it in spec))
    sig = sha(canon([[(it.get("dist") or {}).get("fam"), (it.get("transform") or {}).get("how"), (it.get("transform") or {}).get("bij"), it.get("role"), (it.get("dist") or {}).get("per_obs")] for it in spec if it.get("transform")]))[:16]
    return {
        "violations": V.items,
        "digest": log.digest(),
        "tail": log.tail[:40],
        "sig": sig,
        "nontrivial": counters.get("density_checks", 0) > 0,
        "counters": counters,
        "simtime": len(plan["ops"]),
        "subbatch": "fault-free",
    }

"""C13 — Gibbs kernels draw from the exact full conditional (world S)."""

from __future__ import annotations

import copy

import jax
import jax.numpy as jnp
import numpy as np
import tensorflow_probability.substrates.jax.bijectors as tfb
import tensorflow_probability.substrates.jax.distributions as tfd
from scipy import special, stats

import liesel.goose as gs
import liesel.model as lsl
from liesel.goose.epoch import EpochConfig, EpochState, EpochType
from liesel.model.distreg import DistRegBuilder, tau2_gibbs_kernel
from liesel.model.goose import finite_discrete_gibbs_kernel
from simkit import stat_world as S
from simkit.core import EventLog, SutError, Violations, canon, sha
from simkit.props.C04 import Stats

RUN_CAP_S = 900
F64 = np.float64
P_FALSE = 1e-12


def gen_plan(rng, tier: str, idx: int) -> dict:
    N = 100000 if tier == "quick" else 400000
    if idx % 2 == 0:
        d = rng.randint(2, 6)
        # "partial": some coefficients unpenalised; "lowrank": A'A of a random (d-1) x d matrix -
        # rank-deficient penalties whose null space is not spanned by the constant vector
        pen = rng.choice(["identity", "ridge_plus", "diff1", "diff2" if d >= 3 else "diff1", "partial", "lowrank"])
        return {"sub": "tau2", "n": rng.randint(5, 14), "d": d, "pen": pen, "a": rng.choice([0.5, 1.0, 2.0, 3.5]), "b": rng.choice([0.001, 0.05, 0.5, 1.0, 2.5]),
                "beta": [round(rng.uniform(-2, 2), 3) for _ in range(d)], "tau2_now": rng.choice([0.1, 1.0, 7.0, 10000.0]),
                "data_seed": rng.randrange(10**6), "seed": rng.randrange(2**31), "N": N, "second_smooth": rng.random() < 0.4,
                # the hyperparameters found in the model state at sampling time (changed after the kernel was built)
                "a_later": rng.choice([None, None, 0.7, 2.0, 5.0]), "b_later": rng.choice([None, None, 0.3, 1.5])}
    k = rng.randint(2, 6)
    outcomes = sorted(rng.sample([-2.0, -1.0, -0.5, 0.0, 0.5, 1.0, 1.5, 2.0, 3.0], k))
    probs = [rng.uniform(0.2, 1.0) for _ in range(k)]
    tot = sum(probs)
    kind = rng.choice(["finite_given", "finite_extracted", "bernoulli_extracted", "bernoulli_given"])
    if kind.startswith("finite") and rng.random() < 0.4:
        # an outcome with prior probability exactly zero ("for all prior probabilities"): its
        # joint density is zero, so it must never be drawn - wherever it sits in the outcome set
        z = rng.choice([0, 0, k - 1, rng.randrange(k)])
        probs[z] = 0.0
        tot = sum(probs)
    return {"sub": "discrete", "kind": kind, "outcomes": outcomes, "probs": [round(p / tot, 4) for p in probs], "p1": round(rng.uniform(0.1, 0.9), 3),
            "n": rng.randint(1, 8), "slope": round(rng.uniform(-1.5, 1.5), 3), "mu": round(rng.uniform(-1, 1), 3), "s": rng.choice([0.7, 1.0, 2.0]),
            "lik": rng.choice(["normal", "poisson", "none"]), "latent": rng.random() < 0.5, "w": round(rng.uniform(-2.5, 2.5), 3), "current": rng.randrange(k), "data_seed": rng.randrange(10**6), "seed": rng.randrange(2**31), "N": N}


def shrink_candidates(plan):
    if plan["N"] > 20000:
        p = copy.deepcopy(plan)
        p["N"] = 20000
        yield p
    if plan["sub"] == "tau2" and plan["second_smooth"]:
        p = copy.deepcopy(plan)
        p["second_smooth"] = False
        yield p
    if plan["sub"] == "discrete" and plan["lik"] != "none":
        p = copy.deepcopy(plan)
        p["lik"] = "none"
        yield p


def penalty(kind, d, seed=0):
    if kind == "identity":
        return np.eye(d)
    if kind == "partial":
        k0 = max(1, d // 3)
        return np.diag([0.0] * k0 + [1.0] * (d - k0))
    if kind == "lowrank":
        A = np.random.RandomState(seed).normal(size=(d - 1, d)).round(2)
        return A.T @ A
    if kind == "ridge_plus":
        D = np.diff(np.eye(d), axis=0)
        return D.T @ D + 0.5 * np.eye(d)
    D = np.diff(np.eye(d), n=1 if kind == "diff1" else 2, axis=0)
    return D.T @ D


def epoch():
    return EpochState(EpochConfig(EpochType.POSTERIOR, 10, 1, None), 1, 1, 1, 0)


def draws_of(kernel, iface, state, key_name, seed, N):
    keys = jax.random.split(jax.random.PRNGKey(seed), N)
    ks = kernel.init_state(jax.random.PRNGKey(0), state)
    ep = epoch()

    def one(k):
        out = kernel.transition(k, ks, state, ep)
        return iface.extract_position([key_name], out.model_state)[key_name]

    try:
        return np.asarray(jax.jit(jax.vmap(one))(keys))
    except Exception as e:
        raise SutError(f"gibbs-transition|{type(e).__name__}|{key_name}|{e}") from e


def run_tau2(plan, V, log, counters):
    rs = np.random.RandomState(plan["data_seed"])
    n, d = plan["n"], plan["d"]
    X = rs.normal(size=(n, d)).astype(np.float32)
    y = rs.normal(size=n).astype(np.float32)
    K = penalty(plan["pen"], d, plan["data_seed"])
    b = DistRegBuilder().add_response(jnp.asarray(y), tfd.Normal).add_predictor("loc", tfb.Identity).add_predictor("scale", tfb.Exp)
    b.add_np_smooth(jnp.asarray(X), jnp.asarray(K, jnp.float32), a=plan["a"], b=plan["b"], predictor="loc", name="f")
    b.add_p_smooth(jnp.ones((n, 1), jnp.float32), m=0.0, s=10.0, predictor="scale", name="s0")
    if plan["second_smooth"]:
        b.add_np_smooth(jnp.asarray(rs.normal(size=(n, 2)).astype(np.float32)), jnp.eye(2, dtype=jnp.float32), a=1.0, b=0.5, predictor="loc", name="g")
    try:
        model = b.build_model()
    except Exception as e:
        raise SutError(f"build_model|{type(e).__name__}|distreg|{e}") from e
    iface = gs.LieselInterface(model)
    state = iface.update_state({"f_beta": jnp.asarray(plan["beta"], jnp.float32), "f_tau2": jnp.float32(plan["tau2_now"])}, model.state)
    group = model.groups()["f"]
    kernel = tau2_gibbs_kernel(group)
    kernel.set_model(iface)
    a_now, b_now = plan["a"], plan["b"]
    later = {}
    if plan.get("a_later") is not None:
        a_now = plan["a_later"]
        later["f_a"] = jnp.float32(a_now)
    if plan.get("b_later") is not None:
        b_now = plan["b_later"]
        later["f_b"] = jnp.float32(b_now)
    if later:
        # "given all other current values": the conditional is defined by the state handed to the kernel
        state = iface.update_state(later, state)
        counters["probe.hyperparameters_changed_after_kernel_construction"] = 1
    # analytic conditional from the plan alone
    beta = np.asarray(plan["beta"], F64)
    rank = int(np.linalg.matrix_rank(K))
    a_c = a_now + 0.5 * rank
    b_c = b_now + 0.5 * float(beta @ K @ beta)
    label = f"tau2/{plan['pen']}" + ("/rank-deficient" if rank < d else "/full-rank")
    # (1) proportional to the model's own joint density as a function of tau2 alone
    grid = np.exp(np.linspace(np.log(max(0.03, b_c / (a_c + 1) / 8)), np.log(b_c / max(a_c - 0.9, 0.2) * 8 + 1.0), 25)).astype(np.float32)
    lp = np.asarray(jax.vmap(lambda v: iface.log_prob(iface.update_state({"f_tau2": v}, state)))(jnp.asarray(grid)), F64)
    cond = stats.invgamma.logpdf(grid.astype(F64), a_c, scale=b_c)
    diff = lp - cond
    spread = float(diff.max() - diff.min())
    tol = 3e-3 * (1 + np.abs(lp).max() * 0.02 + np.abs(cond).max() * 0.02)
    if not np.isfinite(spread) or spread > tol:
        V.add("conditional-proportional-to-joint", label, f"log joint(tau2) - log IG(tau2; a + rank/2 = {a_c}, b + beta'K beta/2 = {b_c:.5f}) varies by {spread:.5f} over the grid (tolerance {tol:.5f}); rank(K) = {rank} of {d}")
    # (2) the draws follow that conditional
    N = plan["N"]
    dr = draws_of(kernel, iface, state, "f_tau2", plan["seed"], N).astype(F64)
    if dr.shape != (N,) or not np.all(np.isfinite(dr)) or np.any(dr <= 0):
        V.add("draws", label, f"draws have shape {dr.shape}, min {np.nanmin(dr)}")
        return N
    St = Stats(V, N, label)
    St.pit("conditional-PIT tau2", stats.invgamma.cdf(dr, a_c, scale=b_c))
    counters["statistics_tested"] = St.count
    counters["worst_deviation_over_bound_x1000"] = int(1000 * St.worst)
    counters["probe.rank_deficient_penalty"] = int(rank < d)
    counters["probe.two_smooths"] = int(plan["second_smooth"])
    log.add("tau2", plan["pen"], rank, round(St.worst, 4), round(spread, 6))
    return N


def run_discrete(plan, V, log, counters):
    rs = np.random.RandomState(plan["data_seed"])
    bern = plan["kind"].startswith("bernoulli")
    outcomes = [0.0, 1.0] if bern else plan["outcomes"]
    probs = [1 - plan["p1"], plan["p1"]] if bern else plan["probs"]
    n = plan["n"]
    if bern:
        prior = lsl.Dist(tfd.Bernoulli, probs=lsl.Value(jnp.float32(plan["p1"]), _name="p1"))
        c = lsl.Var(jnp.int32(plan["current"] % 2), prior, name="c")
    else:
        grid = lsl.Var(jnp.asarray(outcomes, jnp.float32), name="grid")
        prior = lsl.Dist(tfd.FiniteDiscrete, outcomes=grid, probs=jnp.asarray(probs, jnp.float32))
        c = lsl.Var(jnp.float32(outcomes[plan["current"] % len(outcomes)]), prior, name="c")
    c.parameter = True
    mu = lsl.Var(jnp.float32(plan["mu"]), lsl.Dist(tfd.Normal, loc=jnp.float32(0.0), scale=jnp.float32(3.0)), name="mu")
    mu.parameter = True
    slope = np.float32(plan["slope"])
    eta = lsl.Var(lsl.Calc(lambda m, cc: m + slope * cc, mu, c), name="eta")
    roots = [eta]
    if plan["lik"] == "normal":
        yv = rs.normal(size=n).astype(np.float32) + 0.5
        y = lsl.Var(jnp.asarray(yv), lsl.Dist(tfd.Normal, loc=eta, scale=jnp.float32(plan["s"])), name="y")
        y.observed = True
        roots = [y]
    elif plan["lik"] == "poisson":
        yv = rs.poisson(1.5, size=n).astype(np.float32)
        y = lsl.Var(jnp.asarray(yv), lsl.Dist(tfd.Poisson, log_rate=eta), name="y")
        y.observed = True
        roots = [y]
    if plan.get("latent"):
        # spike-and-slab style: c selects the prior scale of a latent coefficient w (a parameter,
        # not an observed variable); this factor belongs to the full conditional of c
        wscale = lsl.Var(lsl.Calc(lambda cc: 0.4 + 0.9 * jnp.abs(cc), c), name="wscale")
        w = lsl.Var(jnp.float32(plan["w"]), lsl.Dist(tfd.Normal, loc=jnp.float32(0.0), scale=wscale), name="w")
        w.parameter = True
        roots = roots + [w]
    model = lsl.GraphBuilder().add(*roots).build_model()
    iface = gs.LieselInterface(model)
    given = plan["kind"].endswith("given")
    try:
        kernel = finite_discrete_gibbs_kernel("c", model, outcomes=([0, 1] if bern else outcomes) if given else None)
    except Exception as e:
        raise SutError(f"finite_discrete_gibbs_kernel|{type(e).__name__}|{plan['kind']}|{e}") from e
    kernel.set_model(iface)
    state = model.state
    # analytic conditional (float64, from the plan alone)
    o = np.asarray(outcomes, F64)
    lpc = np.log(np.asarray(probs, F64) / np.sum(probs))
    etas = plan["mu"] + F64(slope) * o
    if plan["lik"] == "normal":
        lpc = lpc + stats.norm.logpdf(yv.astype(F64)[None, :], etas[:, None], plan["s"]).sum(axis=1)
    elif plan["lik"] == "poisson":
        lpc = lpc + stats.poisson.logpmf(yv.astype(F64)[None, :], np.exp(etas)[:, None]).sum(axis=1)
    if plan.get("latent"):
        lpc = lpc + stats.norm.logpdf(F64(np.float32(plan["w"])), 0.0, 0.4 + 0.9 * np.abs(o))
    cond = np.exp(lpc - special.logsumexp(lpc))
    label = f"finite-discrete/{plan['kind']}/{plan['lik']}" + ("/latent-prior" if plan.get("latent") else "")
    # (1) proportional to the model's joint as a function of c alone
    vals = jnp.asarray([0, 1], jnp.int32) if bern else jnp.asarray(outcomes, jnp.float32)
    try:
        lj = np.asarray(jax.vmap(lambda v: iface.log_prob(iface.update_state({"c": v}, state)))(vals), F64)
    except Exception as e:
        raise SutError(f"log_prob|{type(e).__name__}|discrete|{e}") from e
    pj = np.exp(lj - special.logsumexp(lj))
    if not np.allclose(pj, cond, atol=2e-3):
        V.add("conditional-proportional-to-joint", label, f"normalised joint over the outcomes {pj.tolist()} vs analytic full conditional {cond.tolist()}")
    # (2) draw frequencies
    N = plan["N"]
    dr = draws_of(kernel, iface, state, "c", plan["seed"], N).astype(F64)
    St = Stats(V, N, label)
    known = np.zeros(N, bool)
    for j, oj in enumerate(o):
        ind = np.isclose(dr, oj)
        known |= ind
        St.known(f"frequency of outcome[{j}]={oj}", ind.astype(F64), cond[j], cond[j] * (1 - cond[j]) + 1e-12)
    if not known.all():
        V.add("draws", label, f"{int((~known).sum())} draws are not members of the outcome set {o.tolist()}")
    counters["statistics_tested"] = St.count
    counters["worst_deviation_over_bound_x1000"] = int(1000 * St.worst)
    counters["probe.zero_probability_outcome"] = int(any(p_ == 0 for p_ in probs))
    counters["probe.zero_probability_first_outcome"] = int(probs[0] == 0)
    counters["probe.outcomes_extracted_from_prior"] = int(not given)
    counters["probe.downstream_likelihood"] = int(plan["lik"] != "none")
    counters["probe.feeds_prior_of_another_parameter"] = int(bool(plan.get("latent")))
    log.add("discrete", plan["kind"], plan["lik"], round(St.worst, 4))
    return N


def execute(plan: dict) -> dict:
    V = Violations("C13")
    log = EventLog()
    counters: dict = {}
    sim = run_tau2(plan, V, log, counters) if plan["sub"] == "tau2" else run_discrete(plan, V, log, counters)
    return {"violations": V.items, "digest": log.digest(), "tail": log.tail[:10],
            "sig": sha(canon({k: v for k, v in plan.items() if k not in ("seed",)}))[:16], "nontrivial": sim > 0,
            "counters": counters, "simtime": sim, "subbatch": plan["sub"]}

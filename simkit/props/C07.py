"""C07 — the engine drives every kernel through the documented lifecycle (world E)."""

from __future__ import annotations

import numpy as np

from simkit import engine_world as W
from simkit.core import EventLog, Violations, canon, sha, tree_digest

RUN_CAP_S = 900


def gen_plan(rng, tier: str, idx: int) -> dict:
    eps, g = W.gen_schedule(rng, max_epochs=6, max_dur=20 if tier == "quick" else 24)
    via = "engine" if rng.random() < 0.85 else "builder"
    if via == "builder":
        epochs0, script = [[0, 1, 1]] + eps, [["all"]]
        chunk = g
    else:
        epochs0, script = W.gen_script(rng, eps)
        chunk = rng.choice(W.divisors(g))
    kernels = W.gen_kernels(rng, max_k=3 if tier == "quick" else 4)
    plan = {
        "chains": rng.randint(1, 4),
        "chunk": chunk,
        "seed": rng.randrange(2**31),
        "via": via,
        "kernels": kernels,
        "epochs0": epochs0,
        "script": script,
        "store_ks": rng.random() < 0.8,
        "minimize": rng.random() < 0.1,
        "included": ["trail"] if rng.random() < 0.5 else [],
        "excluded": [],
        "qgen": rng.choice([0, 0, 1]),
        "twin": rng.random() < 0.5 and script != [["all"]],
    }
    plan["idents"] = W.gen_idents(rng, len(kernels))
    return plan


def abbreviate(plan):
    return plan


def shrink_candidates(plan):
    return W.shrink_candidates_E(plan)


def check_lifecycle(plan, got, ref, V: Violations, counters: dict):
    """Compares collected results of one engine against RefEngine (lifecycle clauses)."""
    K = len(plan["kernels"])
    C = plan["chains"]
    trans = ref["trans"]
    T = len(trans)
    ids = W.kernel_ids(plan)
    if list(ref["events"]) != [tuple(e) for e in got["events"]]:
        V.add("script-events", "api", f"expected {ref['events']} got {got['events']}")
    infos = got["infos"]
    hash_viol: list = []
    if T and set(infos.keys()) != set(ids):
        V.add("transition-infos", "kernel-ids", f"{sorted(infos.keys())} vs {ids}")
        return
    for k, kid in enumerate(ids):
        if T == 0:
            continue
        inf = infos[kid]
        n_got = inf["error_code"].shape[1]
        if n_got != T or inf["error_code"].shape[0] != C:
            V.add("n-transitions", "total", f"kernel {kid}: {inf['error_code'].shape} stored transition infos, expected ({C},{T})")
            continue
        if plan.get("minimize"):
            continue
        for name, refname in (("t", "t"), ("tie", "tie"), ("nth", "nth"), ("etype", "etype")):
            exp = np.array([tr[refname] for tr in trans])
            bad = np.argwhere(inf[name] != exp[None, :])
            if bad.size:
                c, i = bad[0]
                tr = trans[i]
                V.add("transition-args", name,
                      f"kernel {kid} chain {c} transition #{i} (epoch {tr['nth']} {W.TYPE_NAMES[tr['etype']]}): {name} = {inf[name][c, i]} expected {exp[i]}")
        exp_h = np.array([[tr["h"][c][k] for tr in trans] for c in range(C)], dtype=np.uint64)
        bad = np.argwhere(inf["h"].astype(np.uint64) != exp_h)
        if bad.size:
            c, i = bad[0]
            tr = trans[i]
            hash_viol.append(("hash-chain", f"{tr['boundary']}/{W.TYPE_NAMES[tr['etype']]}",
                  f"kernel {kid} ({plan['kernels'][k]['kind']}) chain {c}: call history diverges from the documented lifecycle at transition #{i} "
                  f"(epoch {tr['nth']} {W.TYPE_NAMES[tr['etype']]}, time {tr['t']}, time_in_epoch {tr['tie']}); calls expected just before it: {tr['pre']}"))
    # counters from stored kernel states (one entry for the initial epoch + one per transition)
    if got["kstates"] is not None and T:
        for k in range(K):
            ks = got["kstates"][k]
            if ks["h"].shape[1] != T + 1:
                V.add("kernel-states", "length", f"kernel {k}: {ks['h'].shape[1]} stored kernel states, expected {T + 1}")
                continue
            for name in ("n_warm", "n_start", "n_end", "n_trans", "n_std", "n_ada", "n_tune_f", "n_tune_s"):
                exp = np.array([[tr["cnt"][c][k][name] for tr in trans] for c in range(C)])
                g = ks[name][:, 1:]
                bad = np.argwhere(g != exp)
                if bad.size:
                    c, i = bad[0]
                    tr = trans[i]
                    V.add("lifecycle-counter", name,
                          f"kernel {k} chain {c}: after transition #{i} (epoch {tr['nth']} {W.TYPE_NAMES[tr['etype']]}, time {tr['t']}) "
                          f"{name} = {g[c, i]}, documented lifecycle gives {exp[c, i]}")
            if np.any(ks["n_calls"][:, 0] != 0) or np.any(ks["n_trans"][:, 0] != 0):
                V.add("lifecycle-counter", "calls-in-initial-epoch", f"kernel {k} received calls in the initial-values epoch")
            counters["probe.kernel_states_checked"] = counters.get("probe.kernel_states_checked", 0) + 1
    # the hash chain necessarily diverges when a counter does; report it only on its own
    if not any(v["oracle"] in ("lifecycle-counter", "transition-args") for v in V.items):
        for hv in hash_viol:
            V.add(*hv)
    # tuning infos
    tun = ref["tunings"]
    if tun:
        if got["tuning"] is None:
            V.add("tune", "missing", f"{len(tun)} adaptation epochs sampled but no tuning infos")
        else:
            for k, kid in enumerate(ids):
                ti = got["tuning"][kid]
                if ti["time"].shape[1] != len(tun):
                    V.add("tune", "count", f"kernel {kid}: {ti['time'].shape[1]} tuning calls, {len(tun)} adaptation epochs")
                    continue
                exp_h = np.array([[tu["h"][c][k] for tu in tun] for c in range(C)], dtype=np.uint64)
                bad = np.argwhere(ti["h"].astype(np.uint64) != exp_h)
                if bad.size:
                    c, i = bad[0]
                    V.add("tune", f"hash/{W.TYPE_NAMES[tun[i]['etype']]}" + ("/history" if plan["kernels"][k].get("needs_history") else ""),
                          f"kernel {kid} chain {c}: call history up to tuning #{i} (epoch {tun[i]['nth']}) diverges; hist_n got {ti['hist_n'][c, i]} expected {tun[i]['hist_n'] if plan['kernels'][k].get('needs_history') else -1}")
                if plan["kernels"][k].get("needs_history"):
                    nk = len(plan["kernels"][k]["keys"])
                    exp_n = np.array([tu["hist_n"] * nk for tu in tun])
                    if np.any(ti["hist_n"] != exp_n[None, :]):
                        V.add("tune", "history-length", f"kernel {kid}: history lengths {ti['hist_n'][0].tolist()} expected {exp_n.tolist()}")
                    counters["probe.history_checked"] = counters.get("probe.history_checked", 0) + 1
    elif got["tuning"] is not None:
        V.add("tune", "unexpected", "tuning infos present without adaptation epoch")


def run_engine(plan, log=None):
    """Builds, drives and collects; SutError (exception from a legitimate call) propagates."""
    from simkit.core import SutError

    try:
        engine, kernels = W.build(plan)
    except SutError:
        raise
    except Exception as e:
        raise SutError(f"build|{type(e).__name__}|?|{e}") from e
    events = W.drive(engine, plan, log)
    try:
        res = engine.get_results()
        got = W.collect(res)
    except Exception as e:
        raise SutError(f"get_results|{type(e).__name__}|?|{e}") from e
    got["events"] = events
    return got, res


def sut_violation(V, e):
    parts = str(e).split("|", 3)
    if len(parts) == 4:
        V.add("unexpected-exception", f"{parts[0]}/{parts[1]}/{parts[2]}", f"a legitimate API call raised: {parts[3]}")
    else:
        V.add("unexpected-exception", "call", str(e))


def failed(V, log):
    return {"violations": V.items, "digest": log.digest(), "tail": log.tail, "sig": "exception", "nontrivial": True,
            "counters": {}, "simtime": 0, "subbatch": "exception"}


def execute(plan: dict) -> dict:
    V = Violations("C07")
    log = EventLog()
    counters: dict = {}
    ref = W.RefEngine(plan).run()
    from simkit.core import SutError

    try:
        got, _ = run_engine(plan, log)
    except SutError as e:
        sut_violation(V, e)
        return failed(V, log)
    check_lifecycle(plan, got, ref, V, counters)
    log.add("samples", tree_digest(got["samples"]))
    log.add("infos", tree_digest(got["infos"]))
    log.add("kstates", tree_digest(got["kstates"]))
    log.add("tuning", tree_digest(got["tuning"]))
    if plan.get("twin"):
        # same epochs, all given at construction, sampled with one sample_all_epochs()
        p2 = dict(plan)
        p2["epochs0"] = [e for e in ref["configs"][: ref["sampled_epochs"]]]
        p2["script"] = [["all"]]
        got2, _ = run_engine(p2)
        for part in ("samples", "infos", "kstates", "tuning", "gq"):
            if tree_digest(got[part]) != tree_digest(got2[part]):
                V.add("twin", part, "appending and sampling epochs one at a time gives different "
                      f"{part} than the same schedule given at construction and sampled at once")
        counters["probe.twin_compared"] = 1
        log.add("twin", tree_digest(got2["samples"]))
    # reach probes and coverage
    types = [e[0] for e in ref["configs"][1:ref["sampled_epochs"]]]
    n_post = sum(1 for t in types if t == 4)
    counters["probe.multi_posterior"] = int(n_post >= 2)
    counters["probe.no_warmup"] = int(bool(types) and all(t == 4 for t in types))
    counters["probe.slow_after_slow"] = int(any(a == 2 and b == 2 for a, b in zip(types, types[1:])))
    counters["probe.burnin_between_adapt"] = int(any(a == 3 and b in (1, 2) for a, b in zip(types, types[1:])))
    counters["probe.append_after_sampling"] = int(
        any(op[0] == "append" and any(o[0] in ("next", "all") for o in plan["script"][:i]) for i, op in enumerate(plan["script"]))
    )
    counters["probe.chunk_lt_duration"] = int(any(e[1] > plan["chunk"] for e in ref["configs"][1:]))
    counters["probe.mixin_kernel"] = int(any(k["kind"] == "mixin" for k in plan["kernels"]))
    counters["probe.needs_history"] = int(any(k.get("needs_history") for k in plan["kernels"]))
    counters["kernel_calls"] = sum(sum(c["n_calls"] + c["n_trans"] for c in row) for row in ref["final_cnt"])
    T = len(ref["trans"])
    trace_sig = sha(canon([ref["final_h"][0], plan["chunk"], [op[0] for op in plan["script"]]]))[:16]
    return {
        "violations": V.items,
        "digest": log.digest(),
        "tail": log.tail,
        "sig": trace_sig,
        "nontrivial": T > 0,
        "counters": counters,
        "simtime": T * plan["chains"],
        "subbatch": "fault-free",
    }

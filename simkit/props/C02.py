"""C02 — model log-probability equals the joint log-density and decomposes as documented.

No schedule/fault dimension of its own: a step invariant of world-M histories with an oracle that
is independent of the code under test (float64 closed forms)."""

from __future__ import annotations

import copy

import jax.numpy as jnp
import numpy as np

import liesel.model as lsl
from simkit import density_oracle as DO
from simkit import model_world as M
from simkit.core import EventLog, SutError, Violations, canon, sha
from simkit.props import C01

RUN_CAP_S = 900


def gen_distreg(rng):
    n = rng.randint(5, 14)
    smooths = []
    for pred in ("loc", "scale"):
        for j in range(rng.randint(1, 2)):
            if rng.random() < 0.5:
                smooths.append({"kind": "p", "pred": pred, "name": f"{pred}_p{j}", "d": rng.randint(1, 3), "m": round(rng.uniform(-1, 1), 2), "s": rng.choice([0.5, 2.0, 10.0])})
            else:
                d = rng.randint(2, 5)
                smooths.append({"kind": "np", "pred": pred, "name": f"{pred}_np{j}", "d": d, "pen": rng.choice(["identity", "ridge_plus", "diff1", "diff2" if d >= 3 else "diff1"]),
                                "a": rng.choice([0.5, 1.0, 2.5]), "b": rng.choice([0.01, 0.5, 2.0])})
    steps = []
    for _ in range(rng.randint(2, 8)):
        sm = rng.choice(smooths)
        if sm["kind"] == "np" and rng.random() < 0.4:
            steps.append([sm["name"] + "_tau2", round(rng.uniform(0.2, 6.0), 3)])
        else:
            scale = 0.3 if sm["pred"] == "scale" else 1.0
            steps.append([sm["name"] + "_beta", [round(rng.uniform(-1.5, 1.5) * scale, 3) for _ in range(sm["d"])]])
    return {"sub": "distreg", "n": n, "smooths": smooths, "steps": steps, "data_seed": rng.randrange(10**6), "spec": [], "ops": [], "user": {}, "per_obs_twin": False}


def exec_distreg(plan, V, log, counters):
    import jax.numpy as jnp
    import tensorflow_probability.substrates.jax.bijectors as tfb
    import tensorflow_probability.substrates.jax.distributions as tfd
    from scipy import stats

    from liesel.model.distreg import DistRegBuilder
    from simkit.props.C13 import penalty

    rs = np.random.RandomState(plan["data_seed"])
    n = plan["n"]
    y = rs.normal(size=n).astype(np.float32)
    b = DistRegBuilder().add_response(jnp.asarray(y), tfd.Normal).add_predictor("loc", tfb.Identity).add_predictor("scale", tfb.Exp)
    X, K = {}, {}
    for sm in plan["smooths"]:
        X[sm["name"]] = (rs.normal(size=(n, sm["d"])) * (0.4 if sm["pred"] == "scale" else 1.0)).astype(np.float32)
        if sm["kind"] == "p":
            b.add_p_smooth(jnp.asarray(X[sm["name"]]), m=sm["m"], s=sm["s"], predictor=sm["pred"], name=sm["name"])
        else:
            K[sm["name"]] = penalty(sm["pen"], sm["d"])
            b.add_np_smooth(jnp.asarray(X[sm["name"]]), jnp.asarray(K[sm["name"]], jnp.float32), a=sm["a"], b=sm["b"], predictor=sm["pred"], name=sm["name"])
    try:
        model = b.build_model()
    except Exception as e:
        raise SutError(f"build_model|{type(e).__name__}|distreg|{e}") from e
    cur = {sm["name"] + "_beta": np.zeros(sm["d"]) for sm in plan["smooths"]}
    cur.update({sm["name"] + "_tau2": 10000.0 for sm in plan["smooths"] if sm["kind"] == "np"})

    def reference():
        eta = {"loc": np.zeros(n), "scale": np.zeros(n)}
        prior = 0.0
        for sm in plan["smooths"]:
            beta = np.asarray(cur[sm["name"] + "_beta"], np.float64)
            eta[sm["pred"]] = eta[sm["pred"]] + X[sm["name"]].astype(np.float64) @ beta
            if sm["kind"] == "p":
                prior += stats.norm.logpdf(beta, sm["m"], sm["s"]).sum()
            else:
                Kk = K[sm["name"]]
                ev = np.linalg.eigvalsh(Kk)
                pos = ev[ev > 1e-6 * ev.max()]
                rank = len(pos)
                t2 = float(np.float32(cur[sm["name"] + "_tau2"]))
                log_pdet = np.log(pos).sum() - rank * np.log(t2)
                prior += 0.5 * (-(beta @ Kk @ beta) / t2 - rank * np.log(2 * np.pi) + log_pdet)
                prior += stats.invgamma.logpdf(t2, sm["a"], scale=sm["b"])
        lik = stats.norm.logpdf(y.astype(np.float64), eta["loc"], np.exp(eta["scale"])).sum()
        return lik, prior

    def compare(where):
        lik, prior = reference()
        mag = abs(lik) + abs(prior)
        for name, got, exp in (("log_lik", model.log_lik, lik), ("log_prior", model.log_prior, prior), ("log_prob", model.log_prob, lik + prior)):
            ga = np.asarray(got, np.float64)
            if ga.shape != ():
                V.add("total-equals-joint-density", f"{name}/distreg/shape", f"{where}: Model.{name} has shape {ga.shape}, a total must be a scalar")
                continue
            g = float(ga)
            if not abs(g - exp) <= 2e-4 * (1 + mag):
                V.add("total-equals-joint-density", f"{name}/distreg", f"{where}: Model.{name} = {g}, reference {exp} (smooths {[(s_['name'], s_['kind'], s_.get('pen')) for s_ in plan['smooths']]})")
        counters["density_checks"] = counters.get("density_checks", 0) + 1

    compare("build")
    for i, (key, val) in enumerate(plan["steps"]):
        model.vars[key].value = jnp.asarray(val, jnp.float32)
        cur[key] = val
        log.add(i, key)
        compare(f"assign:#{i}:{key}")
    counters["probe.distreg_model"] = 1
    counters["probe.degenerate_mvn_prior"] = int(any(sm["kind"] == "np" and sm["pen"] in ("diff1", "diff2") for sm in plan["smooths"]))


def gen_plan(rng, tier: str, idx: int) -> dict:
    if idx % 8 == 7:
        return gen_distreg(rng)
    spec = M.gen_spec(rng, n_items=(3, 14), p_dist=0.75, p_transform=0.3, transforms=M.HOWS, prefixes=("q", "u"))
    ops = C01.interleave(rng, spec, rng.randint(1, 3), faults=False, max_ops=rng.randint(4, 25))
    user = {}
    calcs = [i for i, it in enumerate(spec) if it["k"] in ("calc", "value") and it.get("vk") in ("real", "pos", "unit") and not it.get("wrap")]
    for which in ("log_lik", "log_prior", "log_prob"):
        if calcs and rng.random() < 0.12:
            user[which] = rng.choice(calcs)
    return {"spec": spec, "ops": ops, "user": user, "per_obs_twin": rng.random() < 0.5}


def abbreviate(plan):
    if plan.get("sub") == "distreg":
        return {k: v for k, v in plan.items() if k not in ("spec", "ops")}
    return {"spec": plan["spec"][:6], "n_items": len(plan["spec"]), "ops": plan["ops"][:12], "n_ops": len(plan["ops"]), "user": plan["user"]}


def shrink_candidates(plan):
    if plan.get("sub") == "distreg":
        for i in range(len(plan["steps"]) - 1, -1, -1):
            p = copy.deepcopy(plan)
            del p["steps"][i]
            yield p
        for i in range(len(plan["smooths"]) - 1, -1, -1):
            nm = plan["smooths"][i]["name"]
            if len([s_ for s_ in plan["smooths"] if s_["pred"] == plan["smooths"][i]["pred"]]) > 1:
                p = copy.deepcopy(plan)
                del p["smooths"][i]
                p["steps"] = [st for st in p["steps"] if not st[0].startswith(nm + "_")]
                yield p
        return
    for p in C01.shrink_candidates(dict(plan, faults=False)):
        # keep user-total indices valid
        if len(p["spec"]) != len(plan["spec"]):
            # find the removed index
            names_old = [it["name"] for it in plan["spec"]]
            names_new = [it["name"] for it in p["spec"]]
            removed = next((i for i, n in enumerate(names_old) if i >= len(names_new) or names_new[i] != n), None)
            if removed is not None:
                if removed in p["user"].values():
                    continue
                p["user"] = {k: (v - 1 if v > removed else v) for k, v in p["user"].items()}
        yield p
    for k in list(plan["user"]):
        p = copy.deepcopy(plan)
        del p["user"][k]
        yield p
    if plan["per_obs_twin"]:
        p = copy.deepcopy(plan)
        p["per_obs_twin"] = False
        yield p
    for i, it in enumerate(plan["spec"]):
        if it.get("transform"):
            p = copy.deepcopy(plan)
            p["spec"][i]["transform"] = None
            names = {f"{it['name']}_transformed", f"{it['name']}_transformed_value"}
            p["ops"] = [o for o in p["ops"] if not (o[0] == "assign" and o[1] in names)]
            yield p


def build(spec, user):
    try:
        b = M.construct(spec)
    except Exception as e:
        tag = "transform"
        ctx = e.__context__ or e.__cause__
        hows = {it["transform"]["how"] for it in spec if it.get("transform")}
        if ("Cannot build local model" in str(e) and ctx is not None and "Duplicate node names" in str(ctx)
                and "auto" in hows and any(h.startswith("gb_") for h in hows)):
            # the listed C14 finding surfacing one call earlier: the local model that the deprecated
            # gb.transform builds already fails (names n0, n1, ... were given by an earlier gb.transform)
            tag = "duplicate-names:auto_transform+deprecated-gb-transform@gb.transform-call"
        raise SutError(f"construct|{type(e).__name__}|{tag}|{e} [{type(ctx).__name__}: {ctx}]" if ctx is not None else f"construct|{type(e).__name__}|{tag}|{e}") from e
    gb = b.gb
    try:
        for i, it in enumerate(spec):
            if it["k"] != "group":
                gb.add(b.obj[i])
        for which, i in user.items():
            setattr(gb, f"{which}_node", b.node[i])
        model = gb.build_model()
    except Exception as e:
        hows = {it["transform"]["how"] for it in spec if it.get("transform")}
        tag = "?"
        if "Duplicate node names" in str(e):
            tag = "duplicate-names"
            if "auto" in hows and any(h.startswith("gb_") for h in hows):
                tag = "duplicate-names:auto_transform+deprecated-gb-transform"
        raise SutError(f"build_model|{type(e).__name__}|{tag}|{e}") from e
    return b, model


def check_density(spec, model, sim, user, V, where, counters):
    with M.quiet_counters(model):
        if any(n.outdated for n in model.nodes.values()):
            return
        rv = sim.ref.eval()
    T = DO.ref_terms(spec, rv)
    mag = T["mag"]
    got = {"log_prob": model.log_prob, "log_lik": model.log_lik, "log_prior": model.log_prior}
    exp = {"log_prob": T["total"], "log_lik": T["lik"], "log_prior": T["prior"]}
    for which in ("log_prob", "log_lik", "log_prior"):
        if which in user:
            src = spec[user[which]]["name"]
            with M.quiet_counters(model):
                if not M.same_value(got[which], model.nodes[src].value):
                    V.add("user-total-forwarded", which, f"{where}: Model.{which} = {M.show(got[which])} but the user-supplied node {src} holds {M.show(model.nodes[src].value)}")
            counters["probe.user_supplied_total"] = counters.get("probe.user_supplied_total", 0) + 1
            continue
        g = np.asarray(got[which], np.float64)
        if g.shape != () or not DO.close(g, exp[which], mag):
            kinds = sorted({t["kind"] for t in T["terms"]})
            V.add("total-equals-joint-density", f"{which}/{'+'.join(kinds) or 'empty'}",
                  f"{where}: Model.{which} = {g.tolist()}, reference sum over {len(T['terms'])} distribution nodes = {exp[which]:.6f} "
                  f"(terms: {[(t['name'], t['role'], round(float(t['lp'].sum()), 4)) for t in T['terms']][:6]})")
    scalar_totals = all(np.asarray(got[w]).shape == () for w in got)
    if T["decomposes"] and not user and scalar_totals:
        lhs = float(np.asarray(got["log_prob"], np.float64))
        rhs = float(np.asarray(got["log_lik"], np.float64) + np.asarray(got["log_prior"], np.float64))
        if abs(lhs - rhs) > 1e-4 * (1 + mag):
            V.add("decomposition", "lik+prior", f"{where}: log_prob {lhs} != log_lik + log_prior {rhs} although every distribution belongs to an observed xor parameter variable")
        counters["probe.decomposable_model"] = counters.get("probe.decomposable_model", 0) + 1
    for t in T["terms"]:
        if t["kind"] == "bare":
            with M.quiet_counters(model):
                g = np.asarray(model.nodes[t["name"]].value, np.float64)
        else:
            with M.quiet_counters(model):
                g = np.asarray(model.vars[t["name"]].log_prob, np.float64)
        e = t["lp"] if t["per_obs"] else t["lp"].sum()
        e = np.asarray(e, np.float64)
        if g.shape != e.shape and not (g.size == e.size == 1):
            V.add("var-log-prob", f"shape/{t['kind']}", f"{where}: {t['name']}.log_prob has shape {g.shape}, expected {e.shape} (per_obs={t['per_obs']})")
        elif not np.all(np.abs(g.reshape(e.shape) - e) <= 1e-4 * (1 + np.abs(e)) + 1e-5):
            V.add("var-log-prob", f"value/{t['kind']}", f"{where}: {t['name']}.log_prob = {g.tolist()}, reference {e.tolist()}")
    counters["density_checks"] = counters.get("density_checks", 0) + 1
    counters["probe.transformed_var_terms"] = counters.get("probe.transformed_var_terms", 0) + sum(1 for t in T["terms"] if t["kind"] == "transformed")
    counters["probe.bare_dist_terms"] = counters.get("probe.bare_dist_terms", 0) + sum(1 for t in T["terms"] if t["kind"] == "bare")
    return got


def execute(plan: dict) -> dict:
    V = Violations("C02")
    log = EventLog()
    counters: dict = {}
    spec = plan["spec"]
    if plan.get("sub") == "distreg":
        exec_distreg(plan, V, log, counters)
        return {"violations": V.items, "digest": log.digest(), "tail": log.tail[:20], "sig": sha(canon([plan["smooths"], len(plan["steps"])]))[:16],
                "nontrivial": True, "counters": counters, "simtime": len(plan["steps"]), "subbatch": "distreg"}
    try:
        b, model = build(spec, plan["user"])
    except SutError as e:
        if "duplicate-names:auto_transform+deprecated-gb-transform" not in str(e):
            raise
        # known finding of C14 (see known_findings.json): this program cannot be built, so
        # there is no log-probability to check; the run is counted as trivial, not as a verdict
        log.add("unbuildable", str(e)[:80])
        return {"violations": [], "digest": log.digest(), "tail": log.tail, "sig": "unbuildable", "nontrivial": False,
                "counters": {"probe.unbuildable_program_skipped(C14 known finding)": 1}, "simtime": 0, "subbatch": "skipped"}
    sim = M.ModelSim(spec, model, V, log)
    check_density(spec, model, sim, plan["user"], V, "build", counters)
    twin = None
    if plan["per_obs_twin"]:
        spec2 = copy.deepcopy(spec)
        for it in spec2:
            if it.get("dist"):
                it["dist"]["per_obs"] = not it["dist"].get("per_obs", True)
        b2, twin = build(spec2, plan["user"])
        sim2 = M.ModelSim(spec2, twin, Violations("C02"), EventLog())
    for i, op in enumerate(plan["ops"]):
        if V.items:
            break
        sim.apply(i, op)
        got = check_density(spec, model, sim, plan["user"], V, f"{op[0]}:#{i}", counters)
        if twin is not None:
            sim2.apply(i, op)
            with M.quiet_counters(twin):
                clean = not any(n.outdated for n in twin.nodes.values())
            if got is not None and clean and not plan["user"] and all(np.asarray(got[w]).shape == () and np.asarray(getattr(twin, w)).shape == () for w in got):
                for which in ("log_prob", "log_lik", "log_prior"):
                    a = float(np.asarray(got[which], np.float64))
                    c = float(np.asarray(getattr(twin, which), np.float64))
                    if abs(a - c) > 1e-4 * (1 + abs(a)) + 1e-4:
                        V.add("per-obs-invariance", which, f"{op[0]}:#{i}: {which} = {a} but {c} when every per_obs flag is flipped")
                counters["probe.per_obs_twin_compared"] = counters.get("probe.per_obs_twin_compared", 0) + 1
    counters.update({k: v for k, v in sim.counters.items() if k.startswith("op.")})
    fams = sorted({it["dist"]["fam"] for it in spec if it.get("dist")})
    return {
        "violations": V.items,
        "digest": log.digest(),
        "tail": log.tail[:40],
        "sig": sha(canon([[it["k"], (it.get("dist") or {}).get("fam"), it.get("role"), (it.get("transform") or {}).get("how"), (it.get("dist") or {}).get("per_obs")] for it in spec] + [sorted(plan["user"])]))[:16],
        "nontrivial": counters.get("density_checks", 0) > 0 and bool(fams),
        "counters": counters,
        "simtime": len(plan["ops"]),
        "subbatch": "fault-free",
    }

"""C19 — error and sample bookkeeping in results and summaries is exact (world E, F3/F2)."""

from __future__ import annotations

import copy
import os
import shutil
import tempfile

import jax
import jax.numpy as jnp
import numpy as np

import liesel.goose as gs
from liesel.experimental.arviz import to_arviz_inference_data
from simkit import engine_world as W
from simkit.core import EventLog, SutError, Violations, canon, sha, tree_digest
from simkit.props.C07 import failed, sut_violation

RUN_CAP_S = 900
CODES = [1, 2, 7, 90]
PATTERNS = ["none", "warmup_only", "posterior_only", "dense", "single_chain", "all_chains_one_time", "sparse"]


def gen_plan(rng, tier: str, idx: int) -> dict:
    sub = "probe" if rng.random() < 0.75 else "rw_nan"
    C = rng.randint(1, 6)
    n_warm = rng.randint(0, 3)
    n_post = rng.randint(1, 2)
    base = rng.choice([1, 2, 3, 4])
    eps = []
    for _ in range(n_warm):
        dur = base * rng.randint(1, 5)
        thin = rng.randint(1, dur) if rng.random() < 0.4 else 1
        eps.append([rng.choice([1, 2, 3]), dur, thin])
    for _ in range(n_post):
        dur = base * rng.randint(2, 6)
        divs = [d for d in W.divisors(dur) if dur // d >= 4] or [1]
        thin = rng.choice(divs) if rng.random() < 0.5 else 1
        if dur // thin < 4:
            dur, thin = base * 4, 1
        eps.append([4, dur, thin])
    import math

    g = 0
    for e in eps:
        g = math.gcd(g, e[1])
    epochs0, script = W.gen_script(rng, eps, style=rng.choice(["all", "one_by_one", "append_then_all"]))
    plan = {
        "sub": sub,
        "chains": C,
        "chunk": rng.choice(W.divisors(g)),
        "seed": rng.randrange(2**31),
        "via": "engine",
        "epochs0": epochs0,
        "script": script,
        "store_ks": False,
        "minimize": rng.random() < 0.3,
        "included": [],
        "excluded": [],
        "qgen": 0,
        "per_chain_summary": rng.random() < 0.5,
        "pickle": rng.random() < 0.6,
        "arviz_warmup": rng.random() < 0.5,
    }
    if sub == "probe":
        K = rng.randint(1, 3)
        plan["kernels"] = [
            {"kind": rng.choice(["probe", "mixin"]),
             "keys": [{"name": f"x{k}_0", "shape": rng.choice([[], [], [2]]), "dtype": "f"}],
             "needs_history": False}
            for k in range(K)
        ]
        # F3 fault table
        times = []
        t = 1
        for e in eps:
            for _ in range(e[1]):
                times.append((t, e[0]))
                t += 1
        errors = {}
        pattern = rng.choice(PATTERNS)
        plan["pattern"] = pattern
        for k in range(K):
            tab = {}
            if pattern == "none":
                pass
            elif pattern == "dense":
                for c in range(C):
                    for (tt, ty) in times:
                        if rng.random() < 0.6:
                            tab[f"{c},{tt}"] = rng.choice(CODES)
            elif pattern == "single_chain":
                c = rng.randrange(C)
                for (tt, ty) in times:
                    if rng.random() < 0.4:
                        tab[f"{c},{tt}"] = rng.choice(CODES)
            elif pattern == "all_chains_one_time":
                tt = rng.choice(times)[0]
                code = rng.choice(CODES)
                for c in range(C):
                    tab[f"{c},{tt}"] = code
            else:
                for c in range(C):
                    for (tt, ty) in times:
                        if pattern == "warmup_only" and ty == 4:
                            continue
                        if pattern == "posterior_only" and ty != 4:
                            continue
                        if rng.random() < (0.15 if pattern == "sparse" else 0.35):
                            tab[f"{c},{tt}"] = rng.choice(CODES)
            if tab and rng.random() < 0.85 or k == 0:
                errors[str(k)] = tab
        plan["errors"] = errors
        plan["idents"] = W.gen_idents(rng, K)
    else:
        plan["kernels"] = [{"kind": "rw", "keys": [{"name": "x", "shape": [], "dtype": "f"}]},
                           {"kind": "rw", "keys": [{"name": "y", "shape": [2], "dtype": "f"}]}]
        plan["nan_above"] = round(rng.uniform(0.2, 1.5), 2)
        plan["step"] = rng.choice([1.0, 2.0, 3.0])
        plan["pattern"] = "nan-density"
    return plan


def shrink_candidates(plan):
    if plan["sub"] == "probe":
        for p in W.shrink_candidates_E(plan):
            eps = W.all_epochs(p)
            if not any(e[0] == 4 and e[1] // e[2] >= 4 for e in eps):
                continue
            yield p
        # drop faults
        for k, tab in plan.get("errors", {}).items():
            keys = sorted(tab)
            if len(keys) > 1:
                for half in (keys[: len(keys) // 2], keys[len(keys) // 2:]):
                    p = copy.deepcopy(plan)
                    for kk in half:
                        del p["errors"][k][kk]
                    yield p
    for f in ("pickle", "arviz_warmup", "per_chain_summary"):
        if plan.get(f):
            p = copy.deepcopy(plan)
            p[f] = False
            yield p


# ---------------------------------------------------------------------------- engines


def build_rw_nan(plan):
    C = plan["chains"]
    a = plan["nan_above"]

    def lp(s):
        base = -0.5 * s["x"] ** 2 - 0.5 * jnp.sum(s["y"] ** 2)
        bad = (s["x"] > a) | (s["y"][0] < -a)
        return jnp.where(bad, jnp.nan, base)

    model = gs.DictInterface(lp)
    kernels = [gs.RWKernel(["x"], initial_step_size=plan["step"]), gs.RWKernel(["y"], initial_step_size=plan["step"])]
    for i, k in enumerate(kernels):
        k.identifier = f"kernel_{i:02d}"
        k.set_model(model)
    st = {"x": jnp.zeros((C,), jnp.float32), "y": jnp.zeros((C, 2), jnp.float32)}
    from liesel.goose.kernel_sequence import KernelSequence

    return gs.Engine(
        seeds=jax.random.split(jax.random.PRNGKey(plan["seed"]), C),
        model_states=st,
        kernel_sequence=KernelSequence(kernels),
        epoch_configs=[W.cfg(e) for e in plan["epochs0"]],
        jitted_sample_duration=plan["chunk"],
        model=model,
        position_keys=["x", "y"],
        minimize_transition_infos=plan["minimize"],
        store_kernel_states=False,
        show_progress=False,
    ), kernels


# ---------------------------------------------------------------------------- oracle


def check_bookkeeping(plan, res, ref, truth, books, V, counters):
    """truth: {kid: int array (C, T)} codes returned per transition; books: {kid: error_book}."""
    C = plan["chains"]
    trans = ref["trans"]
    T = len(trans)
    post = np.array([tr["etype"] == 4 for tr in trans], bool)
    warm_iters = int((~post).sum())
    # ---- error log
    for posterior_only in (False, True):
        opt = res.get_error_log(posterior_only)
        if opt.is_none():
            V.add("error-log", "missing", f"get_error_log({posterior_only}) is none")
            continue
        logd = opt.unwrap()
        for kid, codes in truth.items():
            sub = codes[:, post] if posterior_only else codes
            mask = np.any(sub != 0, axis=0)
            exp_tr = np.where(mask)[0]
            exp_codes = sub[:, mask]
            if kid not in logd:
                V.add("error-log", "kernel-missing", f"{kid} absent from error log")
                continue
            kel = logd[kid]
            ph = "posterior" if posterior_only else "overall"
            if not np.array_equal(np.asarray(kel.transition), exp_tr):
                V.add("error-log", f"transitions/{ph}", f"{kid}: logged transitions {np.asarray(kel.transition).tolist()[:20]} expected {exp_tr.tolist()[:20]}")
            elif not np.array_equal(np.asarray(kel.error_codes), exp_codes):
                V.add("error-log", f"codes/{ph}", f"{kid}: logged codes differ from the codes the transitions returned")
            if kel.kernel_ident != kid:
                V.add("error-log", "ident", f"{kel.kernel_ident} != {kid}")
    # ---- summary
    summ = gs.Summary(res, per_chain=plan["per_chain_summary"])
    es = summ.error_summary
    for kid, codes in truth.items():
        if kid not in es:
            if np.any(codes != 0):
                V.add("summary-counts", "kernel-missing", f"{kid} has errors but no error summary")
            continue
        present = sorted(int(c) for c in np.unique(codes) if c != 0)
        if sorted(int(c) for c in es[kid].keys()) != present:
            V.add("summary-counts", "code-set", f"{kid}: summary lists codes {sorted(es[kid].keys())}, transitions returned {present}")
            continue
        for code in present:
            ent = es[kid][code]
            tot = np.sum(codes == code, axis=1)
            pst = np.sum(codes[:, post] == code, axis=1)
            if not np.array_equal(np.asarray(ent.count_per_chain), tot):
                V.add("summary-counts", "total", f"{kid} code {code}: count_per_chain {np.asarray(ent.count_per_chain).tolist()} expected {tot.tolist()}")
            if ent.count_per_chain_posterior is None or not np.array_equal(np.asarray(ent.count_per_chain_posterior), pst):
                V.add("summary-counts", "posterior", f"{kid} code {code}: posterior count_per_chain {None if ent.count_per_chain_posterior is None else np.asarray(ent.count_per_chain_posterior).tolist()} expected {pst.tolist()}")
            if ent.error_msg != books[kid][code] or int(ent.error_code) != code:
                V.add("summary-counts", "message", f"{kid} code {code}: message {ent.error_msg!r} expected {books[kid][code]!r}")
    # ---- error_df
    any_err = any(np.any(c != 0) for c in truth.values())
    for per_chain in (True, False):
        df = summ.error_df(per_chain=per_chain)
        if not any_err:
            if not df.empty:
                V.add("error-df", "nonempty-without-errors", f"{len(df)} rows")
            continue
        rows = {}
        for ix, row in df.iterrows():
            rows[tuple(ix)] = int(row["count"])
        exp = {}
        for kid, codes in truth.items():
            for code in sorted(int(c) for c in np.unique(codes) if c != 0):
                msg = books[kid][code]
                for phase, m in (("warmup", ~post), ("posterior", post)):
                    cnt = np.sum(codes[:, m] == code, axis=1)
                    if per_chain:
                        for c in range(C):
                            exp[(kid, code, msg, phase, c)] = int(cnt[c])
                    else:
                        exp[(kid, code, msg, phase)] = int(cnt.sum())
        if rows != exp:
            diff = [(k, rows.get(k), exp.get(k)) for k in sorted(set(rows) | set(exp), key=str) if rows.get(k) != exp.get(k)]
            V.add("error-df", "per-chain" if per_chain else "aggregated", f"(key, got, expected) {diff[:4]}")
    # ---- sample info
    ps = res.get_posterior_samples()
    first = np.asarray(next(iter(ps.values())))
    n_post_stored = sum(1 for s in ref["stored"] if s["etype"] == 4)
    si = summ.sample_info
    if int(si["num_chains"]) != C or first.shape[0] != C:
        V.add("sample-info", "num_chains", f"{si['num_chains']} vs {C}")
    if int(si["sample_size_per_chain"]) != first.shape[1] or first.shape[1] != n_post_stored:
        V.add("sample-info", "sample_size_per_chain", f"reported {si['sample_size_per_chain']}, stored {first.shape[1]}, expected {n_post_stored}")
    n_warm_stored = sum(1 for s in ref["stored"] if s["etype"] in (1, 2, 3))
    if int(si["warmup_size_per_chain"]) not in (warm_iters, n_warm_stored):
        V.add("sample-info", "warmup_size_per_chain", f"reported {si['warmup_size_per_chain']}; warm-up iterations {warm_iters}, stored warm-up samples {n_warm_stored}")
    # ---- ArviZ conversion
    for include_warmup in ([False, True] if (plan["arviz_warmup"] and n_warm_stored) else [False]):
        idat = to_arviz_inference_data(res, include_warmup=include_warmup)
        for name, arr in ps.items():
            got = np.asarray(idat.posterior[name].values)
            if got.shape != np.asarray(arr).shape or not np.array_equal(got, np.asarray(arr)):
                V.add("arviz", "posterior", f"{name}: ArviZ posterior group differs from get_posterior_samples (shape {got.shape} vs {np.asarray(arr).shape})")
        if include_warmup:
            allS = res.get_samples()
            widx = [i for i, s in enumerate(ref["stored"]) if s["etype"] in (1, 2, 3)]
            for name in ps:
                got = np.asarray(idat.warmup_posterior[name].values)
                exp = np.asarray(allS[name])[:, widx]
                if got.shape != exp.shape or not np.array_equal(got, exp):
                    V.add("arviz", "warmup", f"{name}: ArviZ warmup_posterior group differs from the stored warm-up samples")
            counters["probe.arviz_warmup"] = 1
    # ---- pickle round trip
    if plan["pickle"]:
        d = tempfile.mkdtemp(prefix="c19_")
        try:
            path = os.path.join(d, "results.pkl")
            res.pkl_save(path)
            back = gs.SamplingResults.pkl_load(path)
        finally:
            shutil.rmtree(d, ignore_errors=True)
        a, b = W.collect(res), W.collect(back)
        for part in ("samples", "infos", "post_samples", "tuning"):
            if tree_digest(a[part]) != tree_digest(b[part]):
                V.add("pickle", part, f"{part} changed by pkl_save/pkl_load")
        counters["probe.pickle_roundtrip"] = 1
    return summ


def execute(plan: dict) -> dict:
    V = Violations("C19")
    log = EventLog()
    counters: dict = {}
    ref = W.RefEngine(plan).run()
    if plan["sub"] == "probe":
        engine, kernels = W.build(plan)
    else:
        engine, kernels = build_rw_nan(plan)
    try:
        W.drive(engine, plan, log)
    except SutError as e:
        sut_violation(V, e)
        return failed(V, log)
    res = engine.get_results()
    got = W.collect(res)
    T = len(ref["trans"])
    C = plan["chains"]
    truth = {kid: np.asarray(inf["error_code"]) for kid, inf in got["infos"].items()}
    books = {k.identifier: type(k).error_book for k in kernels}
    fired = 0
    if plan["sub"] == "probe":
        # the injected table is the ground truth; the stored infos must reproduce it
        for ki, ker in enumerate(kernels):
            exp = np.zeros((C, T), np.int32)
            for ct, code in plan.get("errors", {}).get(str(ki), {}).items():
                c, t = (int(v) for v in ct.split(","))
                if c < C and 1 <= t <= T:
                    exp[c, t - 1] = code
            fired += int((exp != 0).sum())
            if truth[ker.identifier].shape != exp.shape or not np.array_equal(truth[ker.identifier], exp):
                V.add("transition-infos", "injected-codes", f"{ker.identifier}: stored error codes differ from the injected fault table")
            truth[ker.identifier] = exp
        counters["fault.F3_error_codes_configured"] = sum(len(v) for v in plan.get("errors", {}).values())
        counters["fault.F3_error_codes_fired"] = fired
    else:
        for kid, c in list(truth.items()):
            if c.shape != (C, T):
                V.add("transition-infos", "count", f"{kid}: {c.shape[1] if c.ndim == 2 else c.shape} transition infos stored for {T} transitions (they must be stored for every transition)")
        if V.items:
            return {"violations": V.items, "digest": log.digest(), "tail": log.tail, "sig": "infos-count", "nontrivial": True,
                    "counters": counters, "simtime": T * C, "subbatch": "F2-nan-density"}
        fired = int(sum((c != 0).sum() for c in truth.values()))
        counters["fault.F2_nan_density_code90_fired"] = fired
        for kid, c in truth.items():
            if not set(np.unique(c).tolist()) <= {0, 90}:
                V.add("transition-infos", "unexpected-code", f"{kid}: codes {np.unique(c).tolist()}")
    check_bookkeeping(plan, res, ref, truth, books, V, counters)
    post = np.array([tr["etype"] == 4 for tr in ref["trans"]], bool)
    tot = sum(int((c != 0).sum()) for c in truth.values())
    pst = sum(int((c[:, post] != 0).sum()) for c in truth.values())
    counters["probe.no_errors"] = int(tot == 0)
    counters["probe.warmup_only_errors"] = int(tot > 0 and pst == 0)
    counters["probe.posterior_only_errors"] = int(tot > 0 and pst == tot)
    counters["probe.errors_in_both_phases"] = int(0 < pst < tot)
    counters["probe.warmup_thinning"] = int(any(e[0] in (1, 2, 3) and e[2] > 1 for e in ref["configs"]))
    counters["probe.no_warmup_epochs"] = int(not (~post).any())
    log.add("truth", {k: v.tolist() for k, v in truth.items()})
    log.add("samples", tree_digest(got["samples"]))
    sig = sha(canon([plan["chains"], plan["pattern"], len(plan["kernels"]), ref["configs"], plan["chunk"], tot, pst]))[:16]
    return {
        "violations": V.items,
        "digest": log.digest(),
        "tail": log.tail,
        "sig": sig,
        "nontrivial": T > 0 and (fired > 0 or plan.get("pattern") == "none"),
        "counters": counters,
        "simtime": T * C,
        "subbatch": ("F3-" + plan["pattern"]) if plan["sub"] == "probe" else "F2-nan-density",
    }

"""C01 — cache coherence of the model graph (world M)."""

from __future__ import annotations

import copy

from simkit import model_world as M
from simkit.core import EventLog, Violations, canon, sha

RUN_CAP_S = 900


# ---------------------------------------------------------------------------- logical tasks


def assignables(spec):
    return M.assignable_items(spec)


def all_names(spec):
    return list(M.node_inputs_from_spec(spec)) + ["_model_log_prob", "_model_log_lik", "_model_log_prior"]


def cached_calcs(spec):
    return [it["name"] for it in spec if it["k"] == "calc" and it["mode"] == "cached"]


def task_single_writer(rng, spec):
    A = assignables(spec)
    for _ in range(rng.randint(1, 5)):
        name, via, vk, shape = rng.choice(A)
        yield ["assign", name, via, M.draw_value(rng, vk, shape)]


def task_batch_writer(rng, spec):
    A = assignables(spec)
    yield ["auto", False]
    for _ in range(rng.randint(1, 4)):
        name, via, vk, shape = rng.choice(A)
        yield ["assign", name, via, M.draw_value(rng, vk, shape)]
    if rng.random() < 0.8:
        yield ["update"]
    yield ["auto", True]


def task_targeted_reader(rng, spec):
    names = all_names(spec)
    for _ in range(rng.randint(1, 3)):
        yield ["update_t", [rng.choice(names) for _ in range(rng.randint(1, 2))]]


def task_snapshotter(rng, spec):
    yield ["snap"]
    for _ in range(rng.randint(0, 2)):
        yield ["restore", rng.randrange(8)]
        if rng.random() < 0.4:
            yield ["snap"]


def task_dirty_targeted_reader(rng, spec):
    """Assign an ancestor with auto-update off, then ask for one descendant only: the sweep
    restricted to the target's ancestors must still run in dependency order."""
    rel = M.node_inputs_from_spec(spec)
    A = {(n if via == "node" else f"{n}_value"): (n, via, vk, shape) for (n, via, vk, shape) in assignables(spec)}
    targets = [t for t in rel if len(M.closure(rel, t) & set(A)) > 0 and len(M.closure(rel, t)) >= 3]
    if not targets:
        return
    t = rng.choice(targets)
    roots = sorted(M.closure(rel, t) & set(A))
    yield ["auto", False]
    for r in rng.sample(roots, min(len(roots), rng.randint(1, 2))):
        name, via, vk, shape = A[r]
        yield ["assign", name, via, M.draw_value(rng, vk, shape)]
    yield ["update_t", [t]]
    if rng.random() < 0.5:
        yield ["update"]
    yield ["auto", True]


def task_fault_armer(rng, spec):
    cc = cached_calcs(spec)
    if cc:
        yield ["arm", rng.choice(cc), rng.randint(1, 2)]


def task_full_updater(rng, spec):
    for _ in range(rng.randint(1, 2)):
        yield ["update"]


def task_seeder(rng, spec):
    yield ["set_seed", rng.randrange(2**31)]


def interleave(rng, spec, n_tasks, faults: bool, seeded=False, max_ops=60):
    makers = [task_single_writer, task_single_writer, task_batch_writer, task_batch_writer, task_targeted_reader,
              task_targeted_reader, task_snapshotter, task_full_updater, task_dirty_targeted_reader, task_dirty_targeted_reader]
    if faults:
        makers += [task_fault_armer, task_fault_armer, task_fault_armer]
    if seeded:
        makers += [task_seeder]
    ops = []
    live = [rng.choice(makers)(rng, spec) for _ in range(n_tasks)]
    budget = max_ops
    while live and len(ops) < budget:
        t = rng.choice(live)
        try:
            ops.append(next(t))
        except StopIteration:
            live.remove(t)
            if rng.random() < 0.6 and len(ops) < budget - 5:
                live.append(rng.choice(makers)(rng, spec))
    return ops


def gen_plan(rng, tier: str, idx: int) -> dict:
    faults = idx % 2 == 1
    spec = M.gen_spec(rng, n_items=(4, 16) if tier == "quick" else (4, 22), seeded_p=0.15 if rng.random() < 0.3 else 0.0)
    seeded = any(it.get("seeded") for it in spec)
    ops = interleave(rng, spec, rng.randint(2, 4), faults, seeded, max_ops=rng.randint(10, 60))
    return {"spec": spec, "ops": ops, "faults": faults, "copy": rng.random() < 0.2}


def abbreviate(plan):
    return {"spec": plan["spec"][:6], "n_items": len(plan["spec"]), "ops": plan["ops"][:25], "n_ops": len(plan["ops"]), "faults": plan["faults"]}


def shrink_candidates(plan):
    ops = plan["ops"]
    # drop halves, then single ops (from the end)
    n = len(ops)
    if n > 1:
        for lo, hi in ((n // 2, n), (0, n // 2)):
            p = copy.deepcopy(plan)
            del p["ops"][lo:hi]
            yield p
    for i in range(n - 1, -1, -1):
        p = copy.deepcopy(plan)
        del p["ops"][i]
        yield p
    # drop trailing spec items nobody references
    spec = plan["spec"]
    for i in range(len(spec) - 1, -1, -1):
        names = M.item_names(spec[i])
        if any((op[0] in ("assign", "arm") and op[1] in names) for op in ops):
            continue
        new = M.drop_item(spec, i)
        if new is None:
            continue
        p = copy.deepcopy(plan)
        p["spec"] = new
        for op in p["ops"]:
            if op[0] == "update_t":
                op[1] = [t for t in op[1] if t not in names] or ["_model_log_prob"]
        yield p
    if plan.get("copy"):
        p = copy.deepcopy(plan)
        p["copy"] = False
        yield p


def execute(plan: dict) -> dict:
    V = Violations("C01")
    log = EventLog()
    spec = plan["spec"]
    b, model = M.build_model(spec, copy=plan.get("copy", False))
    for name, node in model.nodes.items():
        f = getattr(node, "function", None)
        if isinstance(f, M.CountingFn):
            f.calls = 0
        d = getattr(node, "distribution", None)
        if isinstance(d, M.CountingDist):
            d.calls = 0
    sim = M.ModelSim(spec, model, V, log)
    # completeness of the name map: everything the spec describes exists in the model
    missing = [n for n in sim.rel if n not in model.nodes]
    if missing:
        V.add("spec-nodes-missing", "build", f"nodes {missing[:5]} described by the program are not in the model")
    sim.check_coherence("build:#-1")
    states = set()
    trigrams = set()
    for i, op in enumerate(plan["ops"]):
        sim.apply(i, op)
        if V.items:
            break
        od = sim.n_outdated()
        kinds = sorted(type(model.nodes[n]).__name__ for n in od)
        states.add((sim.auto, tuple(kinds), len(sim.snaps)))
        if i >= 2:
            trigrams.add(tuple(o[0] for o in plan["ops"][i - 2:i + 1]))
    c = sim.counters
    c["abstract_states"] = len(states)
    c["op_trigrams"] = len(trigrams)
    c["probe.transient_nodes"] = int(any(it.get("mode") == "transient" or it["k"] in ("ident", "igroup") for it in spec))
    c["probe.dist_nodes"] = int(any(it.get("dist") for it in spec))
    fired = c.get("fault.F1_fired", 0)
    shape_hash = sha(canon([[it["k"], it.get("fn"), it.get("mode"), bool(it.get("dist"))] for it in spec]))[:10]
    return {
        "violations": V.items,
        "digest": log.digest(),
        "tail": log.tail,
        "sig": sha(canon([shape_hash, sorted(map(str, states))]))[:16],
        "nontrivial": c.get("op.assign", 0) > 0 and (not plan["faults"] or fired > 0),
        "counters": c,
        "simtime": len(plan["ops"]),
        "subbatch": "F1-raising-nodes" if plan["faults"] else "fault-free",
    }

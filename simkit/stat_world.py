"""World S: model families for seeded Monte-Carlo simulation of the real kernels.

Each family has a float32 jnp log-density (dict model), optionally a Liesel graph version, a
float64 numpy reference (log-density, gradient, negative Hessian), and a sampler of the joint
(theta, y) used by the exact-draw design (simulator's own numpy sampler, not liesel's)."""

from __future__ import annotations

import jax
import jax.numpy as jnp
import numpy as np
import tensorflow_probability.substrates.jax.distributions as tfd
from scipy import special, stats

import liesel.goose as gs
import liesel.model as lsl

F64 = np.float64


class Regression:
    """beta ~ N(0, tau^2 I_p);  y_i | beta ~ gaussian(x_i beta, sigma) / bernoulli(logit) / poisson(log)."""

    def __init__(self, family: str, n: int, p: int, tau: float, sigma: float, data_seed: int, xscale: float = 1.0):
        self.family, self.n, self.p, self.tau, self.sigma = family, n, p, float(tau), float(sigma)
        rs = np.random.RandomState(data_seed)
        X = rs.normal(size=(n, p)) * xscale
        X[:, 0] = 1.0
        self.X = X.astype(np.float32)
        self.X64 = self.X.astype(F64)

    # -- simulator-side sampling of (beta, y)
    def sample_prior(self, rs, size):
        return rs.normal(size=(size, self.p)) * self.tau

    def sample_y(self, rs, beta):
        eta = beta @ self.X64.T
        if self.family == "gaussian":
            return eta + self.sigma * rs.normal(size=eta.shape)
        if self.family == "logistic":
            return (rs.uniform(size=eta.shape) < special.expit(eta)).astype(F64)
        return rs.poisson(np.exp(np.clip(eta, -20, 6))).astype(F64)

    # -- float64 reference
    def loglik(self, beta, y):
        eta = beta @ self.X64.T
        if self.family == "gaussian":
            return stats.norm.logpdf(y, eta, self.sigma).sum(-1)
        if self.family == "logistic":
            return (y * eta - np.logaddexp(0, eta)).sum(-1)
        return (y * eta - np.exp(eta) - special.gammaln(y + 1)).sum(-1)

    def logpost(self, beta, y):
        return self.loglik(beta, y) + stats.norm.logpdf(beta, 0, self.tau).sum(-1)

    def score(self, beta, y):
        eta = beta @ self.X64.T
        if self.family == "gaussian":
            r = (y - eta) / self.sigma**2
        elif self.family == "logistic":
            r = y - special.expit(eta)
        else:
            r = y - np.exp(eta)
        return r @ self.X64 - beta / self.tau**2

    def info(self, beta, y):
        """Negative Hessian of the log posterior, shape (..., p, p)."""
        eta = beta @ self.X64.T
        if self.family == "gaussian":
            w = np.ones_like(eta) / self.sigma**2
        elif self.family == "logistic":
            pr = special.expit(eta)
            w = pr * (1 - pr)
        else:
            w = np.exp(eta)
        return np.einsum("...n,ni,nj->...ij", w, self.X64, self.X64) + np.eye(self.p) / self.tau**2

    # -- jnp float32 density of a dict state {"beta": (p,), "y": (n,)}
    def jnp_logpost(self, beta, y):
        X = jnp.asarray(self.X)
        eta = X @ beta
        if self.family == "gaussian":
            ll = jnp.sum(tfd.Normal(eta, self.sigma).log_prob(y))
        elif self.family == "logistic":
            ll = jnp.sum(tfd.Bernoulli(logits=eta, dtype=jnp.float32).log_prob(y))
        else:
            ll = jnp.sum(tfd.Poisson(log_rate=eta).log_prob(y))
        return ll + jnp.sum(tfd.Normal(0.0, self.tau).log_prob(beta))

    def dict_interface(self, split=None):
        """split: None -> one key 'beta'; (k,) -> keys 'b0' (first k coords) and 'b1' (rest)."""
        if split is None:
            return gs.DictInterface(lambda s: self.jnp_logpost(s["beta"], s["y"])), ["beta"]
        k = split
        return gs.DictInterface(lambda s: self.jnp_logpost(jnp.concatenate([jnp.atleast_1d(s["b0"]), jnp.atleast_1d(s["b1"])]), s["y"])), ["b0", "b1"]

    def liesel_model(self):
        """Liesel graph version: beta and y are assignable, so per-chain data sets work too."""
        beta = lsl.Var(jnp.zeros(self.p, jnp.float32), lsl.Dist(tfd.Normal, loc=jnp.float32(0.0), scale=jnp.float32(self.tau)), name="beta")
        beta.parameter = True
        X = lsl.Var(jnp.asarray(self.X), name="X")
        eta = lsl.Var(lsl.Calc(jnp.dot, X, beta), name="eta")
        y0 = jnp.zeros(self.n, jnp.float32)
        if self.family == "gaussian":
            dist = lsl.Dist(tfd.Normal, loc=eta, scale=jnp.float32(self.sigma))
        elif self.family == "logistic":
            dist = lsl.Dist(lambda logits: tfd.Bernoulli(logits=logits, dtype=jnp.float32), logits=eta)
        else:
            dist = lsl.Dist(tfd.Poisson, log_rate=eta)
        y = lsl.Var(y0, dist, name="y")
        y.observed = True
        return lsl.GraphBuilder().add(y).build_model()


def hoeffding_t(n: int, p_false: float = 1e-12, width: float = 1.0) -> float:
    """|mean of n independent values in an interval of length `width` - expectation| <= t
    except with probability p_false (Hoeffding's inequality; holds for every seed)."""
    return float(width * np.sqrt(np.log(2.0 / p_false) / (2.0 * n)))


def bernstein_t(n: int, var: float, b: float, p_false: float = 1e-12) -> float:
    """Bernstein: P(|mean| >= t) <= 2 exp(-n t^2 / (2 var + 2 b t / 3)); solved for t."""
    L = np.log(2.0 / p_false)
    return float((b * L / 3 + np.sqrt((b * L / 3) ** 2 + 2 * var * L * n)) / n)

"""RefDensity: float64 closed-form log-densities and bijectors (numpy/scipy only; no jax, no
liesel; TFP's numpy substrate is used only for 'the distribution's default bijector')."""

from __future__ import annotations

import numpy as np
from scipy import special, stats


def logpdf(fam: str, x, p: dict):
    x = np.asarray(x, np.float64)
    g = lambda k: np.asarray(p[k], np.float64)
    if fam == "normal":
        return stats.norm.logpdf(x, g("loc"), g("scale"))
    if fam == "gamma":
        return stats.gamma.logpdf(x, g("concentration"), scale=1.0 / g("rate"))
    if fam == "exponential":
        return stats.expon.logpdf(x, scale=1.0 / g("rate"))
    if fam == "beta":
        return stats.beta.logpdf(x, g("concentration1"), g("concentration0"))
    if fam == "lognormal":
        return stats.lognorm.logpdf(x, s=g("scale"), scale=np.exp(g("loc")))
    if fam == "halfnormal":
        return stats.halfnorm.logpdf(x, scale=g("scale"))
    if fam == "invgamma":
        return stats.invgamma.logpdf(x, g("concentration"), scale=g("scale"))
    if fam == "bernoulli":
        pr = g("probs")
        return x * np.log(pr) + (1 - x) * np.log1p(-pr)
    if fam == "poisson":
        return stats.poisson.logpmf(x, g("rate"))
    if fam == "mvn3":
        return stats.norm.logpdf(x, g("loc"), g("scale")).sum(axis=-1)
    if fam == "uniform_lw":
        lo, w = g("low"), g("width")
        inside = (x > lo) & (x < lo + w)
        return np.where(inside, -np.log(w) + 0.0 * x, -np.inf)
    raise ValueError(fam)


def cdf(fam: str, x, p: dict):
    x = np.asarray(x, np.float64)
    g = lambda k: np.asarray(p[k], np.float64)
    if fam == "normal":
        return stats.norm.cdf(x, g("loc"), g("scale"))
    if fam == "gamma":
        return stats.gamma.cdf(x, g("concentration"), scale=1.0 / g("rate"))
    if fam == "exponential":
        return stats.expon.cdf(x, scale=1.0 / g("rate"))
    if fam == "beta":
        return stats.beta.cdf(x, g("concentration1"), g("concentration0"))
    if fam == "lognormal":
        return stats.lognorm.cdf(x, s=g("scale"), scale=np.exp(g("loc")))
    if fam == "halfnormal":
        return stats.halfnorm.cdf(x, scale=g("scale"))
    if fam == "invgamma":
        return stats.invgamma.cdf(x, g("concentration"), scale=g("scale"))
    raise ValueError(fam)


def _softplus(t):
    return np.logaddexp(0.0, t)


def _log_sigmoid(t):
    return -np.logaddexp(0.0, -t)


def bij_forward(bij: str, t, arg=None):
    t = np.asarray(t, np.float64)
    if bij == "exp":
        return np.exp(t)
    if bij == "softplus":
        return _softplus(t)
    if bij == "sigmoid":
        return special.expit(t)
    if bij == "scale":
        return np.asarray(arg, np.float64) * t
    if bij == "softplus_h":
        h = np.asarray(arg, np.float64)
        return h * _softplus(t / h)
    if bij == "shift":
        return t + np.asarray(arg, np.float64)
    raise ValueError(bij)


def bij_logdet(bij: str, t, arg=None):
    t = np.asarray(t, np.float64)
    if bij == "exp":
        return t
    if bij == "softplus":
        return _log_sigmoid(t)
    if bij == "sigmoid":
        return _log_sigmoid(t) + _log_sigmoid(-t)
    if bij == "scale":
        return np.broadcast_to(np.log(np.abs(np.asarray(arg, np.float64))), np.broadcast(t, np.asarray(arg)).shape)
    if bij == "softplus_h":
        h = np.asarray(arg, np.float64)
        return _log_sigmoid(t / h)
    if bij == "shift":
        return np.zeros_like(t)
    raise ValueError(bij)


def default_bijector(fam: str, p: dict):
    """The distribution's default event-space bijector, obtained from TFP itself (numpy
    substrate, float64) — TFP's bijector arithmetic is trusted base for this case."""
    import tensorflow_probability.substrates.numpy.distributions as nd

    if fam == "uniform_lw":
        lo, w = np.asarray(p["low"], np.float64), np.asarray(p["width"], np.float64)
        b = nd.Uniform(low=lo, high=lo + w).experimental_default_event_space_bijector()
        return (lambda t: np.asarray(b.forward(np.asarray(t, np.float64))),
                lambda t: np.asarray(b.forward_log_det_jacobian(np.asarray(t, np.float64), event_ndims=0)))
    cls = {"gamma": nd.Gamma, "exponential": nd.Exponential, "beta": nd.Beta, "halfnormal": nd.HalfNormal,
           "lognormal": nd.LogNormal, "invgamma": nd.InverseGamma, "normal": nd.Normal}[fam]
    d = cls(**{k: np.asarray(v, np.float64) for k, v in p.items()})
    b = d.experimental_default_event_space_bijector()
    return (lambda t: np.asarray(b.forward(np.asarray(t, np.float64))),
            lambda t: np.asarray(b.forward_log_det_jacobian(np.asarray(t, np.float64), event_ndims=0)))

"""World E: the real Goose engine stepped with verif-owned probe kernels, and RefEngine.

Real code: liesel.goose Engine / EngineBuilder / EpochManager / chains / KernelSequence /
TransitionMixin / TuningMixin / DictInterface / SamplingResults.
Stubs (public Kernel protocol only): ProbeKernel, MixinProbeKernel, ProbeQG.

Plan format (plain data):
  chains:int, chunk:int, seed:int, via:"engine"|"builder"|"builder_multi",
  kernels:[{kind:"probe"|"mixin", keys:[{name, shape:[..], dtype:"i"|"f"}], needs_history:bool}],
  epochs0:[[type,duration,thinning],...]   (given at construction; first must be [0,1,1])
  script:[["append",[type,dur,thin]] | ["next"] | ["all"] | ["results"] | ["next_empty"]],
  store_ks:bool, minimize:bool, included:[names], excluded:[names], qgen:int,
  errors:{kernel_index: {"chain,time": code}}    (F3 fault table)
"""

from __future__ import annotations

import os
from dataclasses import dataclass
from typing import Any, ClassVar

import jax
import jax.numpy as jnp
import numpy as np

import liesel.goose as gs
from liesel.goose.epoch import EpochConfig, EpochState, EpochType
from liesel.goose.kernel_sequence import KernelSequence
from liesel.goose.kernel import (
    DefaultTransitionInfo,
    TransitionMixin,
    TransitionOutcome,
    TuningMixin,
    TuningOutcome,
    WarmupOutcome,
)
from liesel.goose.pytree import register_dataclass_as_pytree

M32 = 0xFFFFFFFF
FNV = 16777619
H0 = 2166136261

K_START, K_END, K_TRANS, K_STD, K_ADA, K_TUNE, K_TUNE_F, K_TUNE_S, K_WARM = range(1, 10)
KIND_NAMES = {
    K_START: "start_epoch",
    K_END: "end_epoch",
    K_TRANS: "transition",
    K_STD: "standard_transition",
    K_ADA: "adaptive_transition",
    K_TUNE: "tune",
    K_TUNE_F: "tune_fast",
    K_TUNE_S: "tune_slow",
    K_WARM: "end_warmup",
}
MAXCALLS = 48
TYPE_NAMES = ["INITIAL", "FAST", "SLOW", "BURNIN", "POSTERIOR"]


# ------------------------------------------------------------------ hashing (jnp and python)


def jmix(h, vals):
    for v in vals:
        h = (h ^ jnp.asarray(v).astype(jnp.uint32)) * jnp.uint32(FNV)
    return h


def pmix(h: int, vals) -> int:
    for v in vals:
        h = ((h ^ (int(v) & M32)) * FNV) & M32
    return h


def jhist_digest(history: dict, keys) -> tuple[Any, Any]:
    n_tot = 0
    d = jnp.uint32(0)
    for k in sorted(keys):
        a = jnp.asarray(history[k])
        flat = a.reshape(-1).astype(jnp.int32).astype(jnp.uint32)
        w = (2 * jnp.arange(flat.shape[0], dtype=jnp.uint32) + 1) * jnp.uint32(40503)
        d = d * jnp.uint32(31) + jnp.sum(flat * w, dtype=jnp.uint32)
        n_tot += a.shape[0]
    return n_tot, d


def phist_digest(history: dict, keys) -> tuple[int, int]:
    n_tot = 0
    d = 0
    for k in sorted(keys):
        a = np.asarray(history[k])
        flat = a.reshape(-1).astype(np.int64)
        w = (2 * np.arange(flat.shape[0], dtype=np.int64) + 1) * 40503
        s = int(np.sum((flat * w) & M32)) & M32
        d = (d * 31 + s) & M32
        n_tot += a.shape[0]
    return n_tot, d


def value_of(cid, t, k, j):
    """Unique, attributable position value written by kernel k at global time t, element j."""
    return ((cid * 16384 + t) * 8 + k) * 4 + j


# ------------------------------------------------------------------ probe kernels


@register_dataclass_as_pytree
@dataclass
class ProbeInfo:
    error_code: Any
    acceptance_prob: Any
    position_moved: Any
    key: Any
    h: Any
    t: Any
    tie: Any
    nth: Any
    etype: Any

    def minimize(self) -> DefaultTransitionInfo:
        return DefaultTransitionInfo(
            self.error_code, self.acceptance_prob, self.position_moved
        )


@register_dataclass_as_pytree
@dataclass
class ProbeTuningInfo:
    error_code: Any
    time: Any
    h: Any
    hist_n: Any
    key: Any


def _ks0():
    z = jnp.int32(0)
    return {
        "h": jnp.uint32(H0),
        "n_start": z,
        "n_end": z,
        "n_trans": z,
        "n_std": z,
        "n_ada": z,
        "n_tune_f": z,
        "n_tune_s": z,
        "n_warm": z,
        "n_calls": z,
        "keys": jnp.zeros((MAXCALLS, 2), dtype=jnp.uint32),
        "init_key": jnp.zeros((2,), dtype=jnp.uint32),
    }


def _log_key(ks, key):
    ks = dict(ks)
    kd = jnp.asarray(key).astype(jnp.uint32).reshape(2)
    idx = jnp.minimum(ks["n_calls"], MAXCALLS - 1)
    ks["keys"] = jax.lax.dynamic_update_slice(ks["keys"], kd[None, :], (idx, 0))
    ks["n_calls"] = ks["n_calls"] + 1
    return ks


class ProbeKernel:
    """Deterministic probe: ignores its key for the state update, writes attributable values,
    hashes every lifecycle call it receives into its kernel state."""

    error_book: ClassVar[dict[int, str]] = {
        0: "no errors",
        1: "probe error one",
        2: "probe error two",
        7: "probe error seven",
        90: "probe error ninety",
    }
    needs_history: ClassVar[bool] = False
    identifier: str = ""
    mixin = False

    def __init__(self, index: int, keys: list[dict], err_table=None, trail=True):
        self.index = index
        self.key_specs = keys
        self.position_keys = tuple(k["name"] for k in keys)
        self._model = None
        self.err_table = None if err_table is None else np.asarray(err_table, np.int32)
        self.trail = trail

    def set_model(self, model):
        self._model = model

    def has_model(self):
        return self._model is not None

    def init_state(self, prng_key, model_state):
        ks = _ks0()
        ks["init_key"] = jnp.asarray(prng_key).astype(jnp.uint32).reshape(2)
        return ks

    # -- lifecycle calls
    def start_epoch(self, prng_key, kernel_state, model_state, epoch: EpochState):
        ks = _log_key(kernel_state, prng_key)
        c = epoch.config
        ks["h"] = jmix(ks["h"], [K_START, epoch.nth_epoch, c.type, c.duration, c.thinning])
        ks["n_start"] = ks["n_start"] + 1
        return ks

    def end_epoch(self, prng_key, kernel_state, model_state, epoch: EpochState):
        ks = _log_key(kernel_state, prng_key)
        c = epoch.config
        ks["h"] = jmix(ks["h"], [K_END, epoch.nth_epoch, c.type, c.duration, c.thinning])
        ks["n_end"] = ks["n_end"] + 1
        return ks

    def _write(self, kind, prng_key, kernel_state, model_state, epoch: EpochState):
        ks = dict(kernel_state)
        c = epoch.config
        ks["h"] = jmix(ks["h"], [kind, epoch.nth_epoch, c.type, epoch.time, epoch.time_in_epoch])
        ks["n_trans"] = ks["n_trans"] + 1
        cid = model_state["cid"]
        pos = {}
        for spec in self.key_specs:
            n = int(np.prod(spec["shape"])) if spec["shape"] else 1
            vals = value_of(cid, epoch.time, self.index, jnp.arange(n, dtype=jnp.int32))
            vals = vals.reshape(tuple(spec["shape"]))
            pos[spec["name"]] = vals.astype(jnp.float32 if spec["dtype"] == "f" else jnp.int32)
        if self.trail:
            tr = model_state["trail"].astype(jnp.uint32)
            tr = (tr * jnp.uint32(31) + jnp.uint32(self.index + 1)) & jnp.uint32(0x3FFFFFFF)
            pos["trail"] = tr.astype(jnp.int32)
        new_state = self._model.update_state(pos, model_state)
        if self.err_table is not None:
            tbl = jnp.asarray(self.err_table)
            tt = jnp.minimum(epoch.time, tbl.shape[1] - 1)
            code = tbl[cid, tt]
        else:
            code = jnp.int32(0)
        info = ProbeInfo(
            error_code=code,
            acceptance_prob=jnp.float32(1.0),
            position_moved=jnp.int32(1),
            key=jnp.asarray(prng_key).astype(jnp.uint32).reshape(2),
            h=ks["h"],
            t=jnp.asarray(epoch.time, jnp.int32),
            tie=jnp.asarray(epoch.time_in_epoch, jnp.int32),
            nth=jnp.asarray(epoch.nth_epoch, jnp.int32),
            etype=jnp.asarray(c.type, jnp.int32),
        )
        return TransitionOutcome(info, ks, new_state)

    def transition(self, prng_key, kernel_state, model_state, epoch):
        return self._write(K_TRANS, prng_key, kernel_state, model_state, epoch)

    def _tune(self, kind, prng_key, kernel_state, model_state, epoch, history):
        ks = _log_key(kernel_state, prng_key)
        c = epoch.config
        vals = [kind, epoch.nth_epoch, c.type, c.duration, c.thinning]
        hist_n = jnp.int32(-1)
        if self.needs_history:
            n, d = jhist_digest(history, self.position_keys)
            vals += [n, d]
            hist_n = jnp.int32(n)
        ks["h"] = jmix(ks["h"], vals)
        return ks, hist_n

    def tune(self, prng_key, kernel_state, model_state, epoch, history):
        ks, hist_n = self._tune(K_TUNE, prng_key, kernel_state, model_state, epoch, history)
        is_slow = jnp.asarray(epoch.config.type == EpochType.SLOW_ADAPTATION, jnp.int32)
        ks["n_tune_s"] = ks["n_tune_s"] + is_slow
        ks["n_tune_f"] = ks["n_tune_f"] + (1 - is_slow)
        info = ProbeTuningInfo(
            jnp.int32(0), jnp.asarray(epoch.time, jnp.int32), ks["h"], hist_n,
            jnp.asarray(prng_key).astype(jnp.uint32).reshape(2),
        )
        return TuningOutcome(info, ks)

    def end_warmup(self, prng_key, kernel_state, model_state, tuning_history):
        ks = _log_key(kernel_state, prng_key)
        ks["h"] = jmix(ks["h"], [K_WARM])
        ks["n_warm"] = ks["n_warm"] + 1
        return WarmupOutcome(jnp.int32(0), ks)


class HistProbeKernel(ProbeKernel):
    needs_history: ClassVar[bool] = True


class MixinProbeKernel(ProbeKernel, TransitionMixin, TuningMixin):
    """The same probe written the way liesel's own kernels are: on top of the public
    TransitionMixin / TuningMixin, so the real lax.cond dispatch on epoch type is observed."""

    mixin = True
    # a different error book than ProbeKernel's: messages must be attributed to the right kernel
    error_book: ClassVar[dict[int, str]] = {
        0: "no errors",
        1: "mixin probe: first error",
        2: "mixin probe: second error",
        7: "mixin probe: seventh error",
        90: "mixin probe: ninetieth error",
    }

    def transition(self, prng_key, kernel_state, model_state, epoch):
        return TransitionMixin.transition(self, prng_key, kernel_state, model_state, epoch)

    def tune(self, prng_key, kernel_state, model_state, epoch, history):
        return TuningMixin.tune(self, prng_key, kernel_state, model_state, epoch, history)

    def _standard_transition(self, prng_key, kernel_state, model_state, epoch):
        out = self._write(K_STD, prng_key, kernel_state, model_state, epoch)
        out.kernel_state["n_std"] = out.kernel_state["n_std"] + 1
        return out

    def _adaptive_transition(self, prng_key, kernel_state, model_state, epoch):
        out = self._write(K_ADA, prng_key, kernel_state, model_state, epoch)
        out.kernel_state["n_ada"] = out.kernel_state["n_ada"] + 1
        return out

    def _tune_fast(self, prng_key, kernel_state, model_state, epoch, history):
        ks, hist_n = self._tune(K_TUNE_F, prng_key, kernel_state, model_state, epoch, history)
        ks["n_tune_f"] = ks["n_tune_f"] + 1
        info = ProbeTuningInfo(
            jnp.int32(0), jnp.asarray(epoch.time, jnp.int32), ks["h"], hist_n,
            jnp.asarray(prng_key).astype(jnp.uint32).reshape(2),
        )
        return TuningOutcome(info, ks)

    def _tune_slow(self, prng_key, kernel_state, model_state, epoch, history):
        ks, hist_n = self._tune(K_TUNE_S, prng_key, kernel_state, model_state, epoch, history)
        ks["n_tune_s"] = ks["n_tune_s"] + 1
        info = ProbeTuningInfo(
            jnp.int32(0), jnp.asarray(epoch.time, jnp.int32), ks["h"], hist_n,
            jnp.asarray(prng_key).astype(jnp.uint32).reshape(2),
        )
        return TuningOutcome(info, ks)


class HistMixinProbeKernel(MixinProbeKernel):
    needs_history: ClassVar[bool] = True


@register_dataclass_as_pytree
@dataclass
class ProbeQuantity:
    error_code: Any
    value: Any
    key: Any


class ProbeQG:
    error_book: ClassVar[dict[int, str]] = {0: "no errors"}

    def __init__(self, identifier: str, src_key: str):
        self.identifier = identifier
        self.src_key = src_key
        self._model = None

    def set_model(self, model):
        self._model = model

    def has_model(self):
        return self._model is not None

    def generate(self, prng_key, model_state, epoch):
        v = jnp.asarray(model_state[self.src_key]).astype(jnp.int32) * 2 + 1
        return ProbeQuantity(
            jnp.int32(0), v, jnp.asarray(prng_key).astype(jnp.uint32).reshape(2)
        )


# ------------------------------------------------------------------ building and driving


def cfg(e) -> EpochConfig:
    return EpochConfig(EpochType(int(e[0])), int(e[1]), int(e[2]), None)


def kernel_class(kspec):
    if kspec["kind"] == "mixin":
        return HistMixinProbeKernel if kspec.get("needs_history") else MixinProbeKernel
    return HistProbeKernel if kspec.get("needs_history") else ProbeKernel


def initial_state(plan: dict, cid: int) -> dict:
    st = {"cid": jnp.int32(cid), "trail": jnp.int32(0)}
    for ki, ks in enumerate(plan["kernels"]):
        for spec in ks["keys"]:
            n = int(np.prod(spec["shape"])) if spec["shape"] else 1
            v = -(np.arange(n, dtype=np.int64) + 1 + 10 * ki + 1000 * cid)
            v = v.reshape(tuple(spec["shape"]))
            st[spec["name"]] = jnp.asarray(v, jnp.float32 if spec["dtype"] == "f" else jnp.int32)
    return st


def err_table(plan: dict, ki: int, total_time: int):
    errs = plan.get("errors", {}).get(str(ki))
    if not errs:
        return None
    tbl = np.zeros((plan["chains"], total_time + 2), np.int32)
    for ct, code in errs.items():
        c, t = ct.split(",")
        if int(t) < tbl.shape[1] and int(c) < tbl.shape[0]:
            tbl[int(c), int(t)] = code
    return tbl


def all_epochs(plan: dict) -> list[list[int]]:
    eps = [list(e) for e in plan["epochs0"]]
    for op in plan["script"]:
        if op[0] == "append" and ref_valid_append(eps, op[1]):
            eps.append(list(op[1]))
    return eps


IDENT_POOL = ["zeta", "alpha", "mid", "beta_kernel", "k9", "k10", "Z", "a_first", "omega", "kernel_1", "kernel_10"]


def kernel_ids(plan: dict) -> list[str]:
    """Kernel identifiers of a plan: user-assigned names (whose alphabetical order differs from the
    configured order) or the builder's default kernel_00, kernel_01, ..."""
    ids = plan.get("idents")
    K = len(plan["kernels"])
    if ids:
        return list(ids[:K])
    return [f"kernel_{k:02d}" for k in range(K)]


def gen_idents(rng, K: int):
    if rng.random() < 0.5:
        return None
    return rng.sample(IDENT_POOL, K)


def tracked_keys(plan: dict) -> list[str]:
    keys = [s["name"] for k in plan["kernels"] for s in k["keys"]]
    keys += list(plan.get("included", []))
    return [k for k in keys if k not in plan.get("excluded", [])]


def build(plan: dict):
    total_time = 1 + sum(e[1] for e in all_epochs(plan)[1:])
    kernels = []
    for ki, ks in enumerate(plan["kernels"]):
        ker = kernel_class(ks)(ki, ks["keys"], err_table(plan, ki, total_time))
        kernels.append(ker)
    model = gs.DictInterface(lambda s: jnp.float32(0.0))
    qgs = [ProbeQG(f"q{i}", plan["kernels"][0]["keys"][0]["name"]) for i in range(plan.get("qgen", 0))]
    C = plan["chains"]
    e0 = [cfg(e) for e in plan["epochs0"]]
    via = plan.get("via", "engine")
    if via == "engine":
        for ki, ker in enumerate(kernels):
            ker.identifier = kernel_ids(plan)[ki]
            ker.set_model(model)
        for q in qgs:
            q.set_model(model)
        states = [initial_state(plan, c) for c in range(C)]
        stacked = jax.tree_util.tree_map(lambda *xs: jnp.stack(xs), *states)
        seeds = jax.random.split(jax.random.PRNGKey(plan["seed"]), C)
        engine = gs.Engine(
            seeds=seeds,
            model_states=stacked,
            kernel_sequence=KernelSequence(kernels),
            epoch_configs=e0,
            jitted_sample_duration=plan["chunk"],
            model=model,
            position_keys=tracked_keys(plan),
            minimize_transition_infos=plan.get("minimize", False),
            store_kernel_states=plan.get("store_ks", True),
            quantity_generators=qgs,
            show_progress=False,
        )
    else:
        b = gs.EngineBuilder(seed=plan["seed"], num_chains=C)
        b.set_epochs(e0)
        b.set_model(model)
        if via == "builder_multi":
            states = [initial_state(plan, c) for c in range(C)]
            stacked = jax.tree_util.tree_map(lambda *xs: jnp.stack(xs), *states)
            try:
                b.set_initial_values(stacked, multiple_chains=True)
            except Exception as e:
                from simkit.core import SutError

                raise SutError(f"set_initial_values(states, multiple_chains=True) raised {type(e).__name__}: {e}")
        else:
            b.set_initial_values(initial_state(plan, 0))
        for ki, ker in enumerate(kernels):
            if plan.get("idents"):
                ker.identifier = kernel_ids(plan)[ki]
            b.add_kernel(ker)
        for q in qgs:
            b.add_quantity_generator(q)
        b.positions_included = list(plan.get("included", []))
        b.positions_excluded = list(plan.get("excluded", []))
        b.store_kernel_states = plan.get("store_ks", True)
        b.minimize_transition_infos = plan.get("minimize", False)
        b.show_progress = False
        engine = b.build()
    return engine, kernels


def np_tree(t):
    return jax.tree_util.tree_map(lambda x: np.asarray(x), t)


def collect(results) -> dict:
    """SamplingResults -> plain numpy dict (public accessors only)."""
    out = {}
    out["samples"] = np_tree(results.get_samples())
    out["infos"] = {
        k: {f: np.asarray(v) for f, v in vars(ti).items()}
        for k, ti in results.transition_infos.combine_all().unwrap().items()
    } if results.transition_infos.combine_all().is_some() else {}
    ks = results.kernel_states
    if ks.is_some() and ks.unwrap().combine_all().is_some():
        out["kstates"] = np_tree(ks.unwrap().combine_all().unwrap())
    else:
        out["kstates"] = None
    ti = results.tuning_infos
    if ti.is_some() and ti.unwrap().get().is_some():
        out["tuning"] = {
            k: {f: np.asarray(v) for f, v in vars(t).items()}
            for k, t in ti.unwrap().get().unwrap().items()
        }
    else:
        out["tuning"] = None
    gq = results.generated_quantities
    if gq.is_some() and gq.unwrap().combine_all().is_some():
        out["gq"] = {
            k: {f: np.asarray(v) for f, v in vars(q).items()}
            for k, q in gq.unwrap().combine_all().unwrap().items()
        }
    else:
        out["gq"] = None
    try:
        out["post_samples"] = np_tree(results.get_posterior_samples())
    except Exception as e:
        out["post_samples"] = f"exc:{type(e).__name__}"
    try:
        out["post_infos"] = {
            k: {f: np.asarray(v) for f, v in vars(ti).items()}
            for k, ti in results.get_posterior_transition_infos().items()
        }
    except Exception as e:
        out["post_infos"] = f"exc:{type(e).__name__}"
    return out


def drive(engine, plan: dict, log=None):
    """Applies the API script.  An exception escaping from a call the script is entitled to make
    is a failure of the system under test (SutError), not of the harness."""
    from simkit.core import SutError

    events = []
    for n, op in enumerate(plan["script"]):
        kind = op[0]
        try:
            if kind == "append":
                try:
                    engine.append_epoch(cfg(op[1]))
                    events.append(("append", "ok"))
                except RuntimeError:
                    events.append(("append", "rejected"))
            elif kind == "next":
                engine.sample_next_epoch()
                events.append(("next", "ok"))
            elif kind == "all":
                engine.sample_all_epochs()
                events.append(("all", "ok"))
            elif kind == "next_empty":
                try:
                    engine.sample_next_epoch()
                    events.append(("next_empty", "sampled"))
                except RuntimeError:
                    events.append(("next_empty", "raised"))
            elif kind == "results":
                r = engine.get_results()
                n_stored = None
                try:
                    s = r.get_samples()
                    n_stored = int(np.asarray(next(iter(s.values()))).shape[1])
                except RuntimeError:  # no samples yet
                    n_stored = "none"
                events.append(("results", n_stored))
        except Exception as e:
            import traceback

            tb = traceback.extract_tb(e.__traceback__)
            where = next((f"{os.path.basename(fr.filename)}:{fr.name}" for fr in reversed(tb) if "/liesel/" in fr.filename), "?")
            raise SutError(f"{kind}|{type(e).__name__}|{where}|{e}") from e
        if log is not None:
            log.add("op", n, op, events[-1])
    return events


# ------------------------------------------------------------------ reference models


def ref_valid_append(configs: list, c) -> bool:
    """RefEpochManager: the documented acceptance rule."""
    typ, dur, thin = int(c[0]), int(c[1]), int(c[2])
    if not configs:
        if typ != 0:
            return False
    if typ == 0:
        if configs:
            return False
        if dur != 1:
            return False
    if configs and typ in (1, 2, 3) and configs[-1][0] == 4:
        return False
    if dur < 1 or thin < 1 or thin > dur:
        return False
    if typ == 4 and dur % thin != 0:
        return False
    return True


class RefEngine:
    """Pure-python model of the documented engine protocol for probe kernels.

    run() yields, per chain and kernel, the expected hash chain and counters after every
    transition, the expected tuning snapshots, the stored indices and values.
    """

    def __init__(self, plan: dict):
        self.plan = plan
        self.C = plan["chains"]
        self.K = len(plan["kernels"])
        self.multi = plan.get("via", "engine") != "builder"

    def cid(self, c):
        return c if self.multi else 0

    def run(self) -> dict:
        plan = self.plan
        C, K = self.C, self.K
        configs = [list(e) for e in plan["epochs0"]]
        ptr = 0
        time = 0
        warm = False
        h = [[H0 for _ in range(K)] for _ in range(C)]
        cnt = [[dict(n_start=0, n_end=0, n_trans=0, n_std=0, n_ada=0, n_tune_f=0, n_tune_s=0, n_warm=0, n_calls=0) for _ in range(K)] for _ in range(C)]
        # per transition records (unthinned), in order
        trans = []  # dict(epoch=nth, etype, t, tie, h[c][k], cnt snapshot[c][k], boundary)
        stored = []  # list of dict(kind="init"|"iter", t, nth, etype)
        tunings = []  # dict(nth, etype, time, h[c][k], hist_n[k])
        events = []
        trail = [0 for _ in range(C)]
        cur_vals = None
        script = list(plan["script"])
        hist_epoch_vals: list = []
        calls_since = []

        def do_epoch():
            nonlocal ptr, time, warm
            c = configs[ptr]
            nth = ptr
            ptr += 1
            typ, dur, thin = c
            if typ == 0:
                time += 1
                stored.append(dict(kind="init", t=0, nth=nth, etype=0))
                return
            pre = []
            if typ == 4 and not warm:
                warm = True
                for ch in range(C):
                    for k in range(K):
                        h[ch][k] = pmix(h[ch][k], [K_WARM])
                        cnt[ch][k]["n_warm"] += 1
                        cnt[ch][k]["n_calls"] += 1
                pre.append("end_warmup")
            for ch in range(C):
                for k in range(K):
                    h[ch][k] = pmix(h[ch][k], [K_START, nth, typ, dur, thin])
                    cnt[ch][k]["n_start"] += 1
                    cnt[ch][k]["n_calls"] += 1
            pre.append("start_epoch")
            epoch_stored_t = []
            for tie in range(dur):
                adapt = typ in (1, 2)
                for ch in range(C):
                    for k in range(K):
                        mix = plan["kernels"][k]["kind"] == "mixin"
                        kind = (K_ADA if adapt else K_STD) if mix else K_TRANS
                        h[ch][k] = pmix(h[ch][k], [kind, nth, typ, time, tie])
                        cnt[ch][k]["n_trans"] += 1
                        if mix:
                            cnt[ch][k]["n_ada" if adapt else "n_std"] += 1
                    for k in range(K):
                        trail[ch] = (trail[ch] * 31 + (k + 1)) & 0x3FFFFFFF
                trans.append(
                    dict(
                        nth=nth, etype=typ, t=time, tie=tie,
                        h=[row[:] for row in h],
                        cnt=[[dict(x) for x in row] for row in cnt],
                        trail=trail[:],
                        boundary="first-of-epoch" if tie == 0 else "within-epoch",
                        pre=list(pre) if tie == 0 else [],
                    )
                )
                if (tie + 1) % thin == 0:
                    stored.append(dict(kind="iter", t=time, nth=nth, etype=typ, trail=trail[:]))
                    epoch_stored_t.append(time)
                time += 1
            for ch in range(C):
                for k in range(K):
                    h[ch][k] = pmix(h[ch][k], [K_END, nth, typ, dur, thin])
                    cnt[ch][k]["n_end"] += 1
                    cnt[ch][k]["n_calls"] += 1
            if typ in (1, 2):
                hist_n = []
                for ch in range(C):
                    for k in range(K):
                        ks = plan["kernels"][k]
                        mix = ks["kind"] == "mixin"
                        kind = (K_TUNE_S if typ == 2 else K_TUNE_F) if mix else K_TUNE
                        vals = [kind, nth, typ, dur, thin]
                        if ks.get("needs_history"):
                            hist = {}
                            for spec in ks["keys"]:
                                n = int(np.prod(spec["shape"])) if spec["shape"] else 1
                                arr = np.array(
                                    [[value_of(self.cid(ch), t, k, j) for j in range(n)] for t in epoch_stored_t],
                                    dtype=np.int64,
                                ).reshape((len(epoch_stored_t), n))
                                hist[spec["name"]] = arr
                            hn, hd = phist_digest(hist, [s["name"] for s in ks["keys"]])
                            vals += [hn, hd]
                        h[ch][k] = pmix(h[ch][k], vals)
                        cnt[ch][k]["n_tune_s" if typ == 2 else "n_tune_f"] += 1
                        cnt[ch][k]["n_calls"] += 1
                tunings.append(dict(nth=nth, etype=typ, time=time, h=[row[:] for row in h],
                                    hist_n=len(epoch_stored_t)))

        for op in script:
            kind = op[0]
            if kind == "append":
                if ref_valid_append(configs, op[1]):
                    configs.append(list(op[1]))
                    events.append(("append", "ok"))
                else:
                    events.append(("append", "rejected"))
            elif kind == "next":
                do_epoch()
                events.append(("next", "ok"))
            elif kind == "all":
                while ptr < len(configs):
                    do_epoch()
                events.append(("all", "ok"))
            elif kind == "next_empty":
                assert ptr >= len(configs)
                events.append(("next_empty", "raised"))
            elif kind == "results":
                events.append(("results", len(stored) if stored else "none"))
        return dict(trans=trans, stored=stored, tunings=tunings, events=events,
                    final_h=h, final_cnt=cnt, configs=configs, sampled_epochs=ptr)

    def expected_value(self, spec, k, c, t):
        n = int(np.prod(spec["shape"])) if spec["shape"] else 1
        v = np.array([value_of(self.cid(c), t, k, j) for j in range(n)], dtype=np.int64)
        return v.reshape(tuple(spec["shape"]))


# ------------------------------------------------------------------ plan generation helpers


def divisors(n: int) -> list[int]:
    return [d for d in range(1, n + 1) if n % d == 0]


def gen_schedule(rng, max_epochs=6, max_dur=24, thin_bias=0.6, allow_no_warmup=True):
    """A valid epoch list after the initial epoch; durations share a non-trivial gcd often."""
    import math

    n = rng.randint(1, max_epochs)
    base = rng.choice([1, 1, 2, 2, 3, 4, 5, 6])
    n_post = rng.randint(0 if not allow_no_warmup else 0, min(3, n))
    if n_post == 0 and rng.random() < 0.7:
        n_post = 1
    n_warm = n - n_post
    if n_warm == 0 and n_post == 0:
        n_post = 1
    eps = []
    for i in range(n_warm):
        typ = rng.choice([1, 1, 2, 2, 3])
        dur = base * rng.randint(1, max(1, max_dur // base))
        thin = rng.randint(1, dur) if rng.random() < thin_bias else 1
        eps.append([typ, dur, thin])
    for i in range(n_post):
        dur = base * rng.randint(1, max(1, max_dur // base))
        thin = rng.choice(divisors(dur)) if rng.random() < thin_bias else 1
        if i > 0 and rng.random() < 0.4:
            # "sample some more": the same posterior configuration again
            dur, thin = eps[-1][1], eps[-1][2]
        eps.append([4, dur, thin])
    g = 0
    for e in eps:
        g = math.gcd(g, e[1])
    return eps, g


def gen_kernels(rng, max_k=4, hist_p=0.5, mixin_p=0.5, shapes=True):
    K = rng.randint(1, max_k)
    ks = []
    for k in range(K):
        nkeys = rng.choice([1, 1, 2])
        keys = []
        for j in range(nkeys):
            shape = rng.choice([[], [], [2], [3], [2, 2]]) if shapes else []
            keys.append({"name": f"x{k}_{j}", "shape": shape, "dtype": rng.choice(["i", "f"])})
        ks.append({"kind": "mixin" if rng.random() < mixin_p else "probe",
                   "keys": keys, "needs_history": rng.random() < hist_p})
    return ks


def gen_script(rng, eps, style=None):
    """Splits the epoch list into construction-time epochs and appended ones, and interleaves
    sampling calls.  Returns (epochs0, script)."""
    style = style or rng.choice(["all", "one_by_one", "mixed", "mixed", "append_then_all"])
    init = [0, 1, 1]
    if style == "all":
        return [init] + eps, [["all"]]
    if style == "append_then_all":
        cut = rng.randint(0, len(eps))
        return [init] + eps[:cut], [["append", e] for e in eps[cut:]] + [["all"]]
    if style == "one_by_one":
        script = [["next"]]
        for e in eps:
            script += [["append", e], ["next"]]
        return [init], script
    # mixed: random interleaving keeping validity
    cut = rng.randint(0, len(eps))
    epochs0 = [init] + eps[:cut]
    pending = eps[cut:]
    script = []
    available = len(epochs0)
    while pending or available:
        r = rng.random()
        if pending and (r < 0.4 or not available):
            script.append(["append", pending.pop(0)])
            available += 1
        elif available and r < 0.75:
            script.append(["next"])
            available -= 1
        elif available:
            script.append(["all"])
            available = 0
        if rng.random() < 0.15:
            script.append(["results"])
        if not available and rng.random() < 0.1:
            script.append(["next_empty"])
    return epochs0, script


# ------------------------------------------------------------------ shrinking of world-E plans


def _fix_chunk(plan: dict) -> dict:
    import math

    g = 0
    for e in all_epochs(plan)[1:]:
        g = math.gcd(g, e[1])
    g = max(g, 1)
    if plan.get("via", "engine") != "engine":
        # builder: gcd of construction-time epochs only
        g0 = 0
        for e in plan["epochs0"][1:]:
            g0 = math.gcd(g0, e[1])
        plan["chunk"] = max(g0, 1)
    elif g % plan["chunk"] != 0:
        plan["chunk"] = g
    return plan


def shrink_candidates_E(plan: dict):
    """One-step simplifications of a world-E plan, simplest first."""
    import copy

    def cp():
        return copy.deepcopy(plan)

    # flatten the script: everything at construction + one sample_all
    eps = all_epochs(plan)
    if plan["script"] != [["all"]]:
        p = cp()
        p["epochs0"] = eps
        p["script"] = [["all"]]
        yield _fix_chunk(p)
    # drop ops that do not sample
    for i, op in enumerate(plan["script"]):
        if op[0] in ("results", "next_empty"):
            p = cp()
            del p["script"][i]
            yield p
    # drop an epoch (not the initial one)
    if plan["script"] == [["all"]]:
        for i in range(len(plan["epochs0"]) - 1, 0, -1):
            if len(plan["epochs0"]) > 2:
                p = cp()
                del p["epochs0"][i]
                if all(ref_valid_append(p["epochs0"][:j], p["epochs0"][j]) for j in range(len(p["epochs0"]))):
                    yield _fix_chunk(p)
    if plan.get("twin"):
        p = cp()
        p["twin"] = False
        yield p
    if plan["chains"] > 1:
        p = cp()
        p["chains"] = 1
        if "errors" in p:
            p["errors"] = {k: {ct: c for ct, c in v.items() if ct.startswith("0,")} for k, v in p["errors"].items()}
        yield p
    if len(plan["kernels"]) > 1:
        for i in range(len(plan["kernels"]) - 1, -1, -1):
            p = cp()
            dropped = [s["name"] for s in p["kernels"][i]["keys"]]
            del p["kernels"][i]
            if p.get("idents"):
                p["idents"] = [x for j, x in enumerate(p["idents"]) if j != i]
            p["included"] = [k for k in p.get("included", []) if k not in dropped]
            p["excluded"] = [k for k in p.get("excluded", []) if k not in dropped]
            if "errors" in p:
                p["errors"] = {}
            yield p
    if plan.get("qgen"):
        p = cp()
        p["qgen"] = 0
        yield p
    if plan.get("idents"):
        p = cp()
        p["idents"] = None
        yield p
    # shorter epochs / no thinning
    if plan["script"] == [["all"]]:
        for i in range(1, len(plan["epochs0"])):
            e = plan["epochs0"][i]
            if e[2] > 1:
                p = cp()
                p["epochs0"][i][2] = 1
                yield p
            if e[1] > 1:
                for nd in (1, e[1] // 2):
                    if nd >= 1 and nd != e[1]:
                        p = cp()
                        p["epochs0"][i][1] = nd
                        p["epochs0"][i][2] = min(p["epochs0"][i][2], nd)
                        if p["epochs0"][i][0] == 4 and nd % p["epochs0"][i][2]:
                            p["epochs0"][i][2] = 1
                        yield _fix_chunk(p)
    for ki, ks in enumerate(plan["kernels"]):
        if ks.get("needs_history"):
            p = cp()
            p["kernels"][ki]["needs_history"] = False
            yield p
        if ks["kind"] == "mixin":
            p = cp()
            p["kernels"][ki]["kind"] = "probe"
            yield p
        if len(ks["keys"]) > 1:
            p = cp()
            dropped = p["kernels"][ki]["keys"].pop()
            p["included"] = [k for k in p.get("included", []) if k != dropped["name"]]
            p["excluded"] = [k for k in p.get("excluded", []) if k != dropped["name"]]
            yield p
        for si, spec in enumerate(ks["keys"]):
            if spec["shape"]:
                p = cp()
                p["kernels"][ki]["keys"][si]["shape"] = []
                yield p
    if plan.get("via", "engine") == "engine":
        import math

        g = 0
        for e in eps[1:]:
            g = math.gcd(g, e[1])
        if plan["chunk"] != g and g:
            p = cp()
            p["chunk"] = g
            yield p

"""World M: the real liesel.model graph driven through op histories, with RefGraph.

Real code: liesel.model (Node subclasses, Var, GraphBuilder, Model, save/load), tfp.
Stubs: node functions (a small library of bounded jnp primitives wrapped in call counters with an
armable F1 trigger), the "disk" (BytesIO).

A *spec* is a list of items in creation order (plain data, part of the plan):
  {"k":"value","name":"n3","val":v,"vk":kind}
  {"k":"var","name":"v4","val":v,"vk":kind,"role":"obs"|"param"|None,"dist":D|None,
        "transform":T|None,"auto":bool}
  {"k":"calc","name":"n5","fn":str,"coef":[..],"inputs":[ref..],"mode":"cached"|"transient",
        "wrap":None|"v5","vk":kind,"seeded":bool}
  {"k":"ident","name":"n6","input":ref,"vk":kind}
  {"k":"igroup","name":"n7","inputs":[ref..],"kw":{name:ref}}   (consumed by a calc fn "group_lin")
  {"k":"baredist","name":"n8","at":ref,"dist":D}
D = {"fam":str,"args":{param:ref},"transient":bool,"per_obs":bool}
ref = {"i":index,"via":"var"|"node"} | {"c":const}
"""

from __future__ import annotations

import copy as _copy
import io
from typing import Any

import jax
import jax.numpy as jnp
import numpy as np
import tensorflow_probability.substrates.jax.bijectors as tfb
import tensorflow_probability.substrates.jax.distributions as tfd

import liesel.model as lsl
from liesel.model.nodes import (
    ArgGroup,
    Calc,
    Dist,
    InputGroup,
    Node,
    TransientCalc,
    TransientDist,
    TransientIdentity,
    TransientNode,
    Value,
    Var,
    VarValue,
)

# ------------------------------------------------------------------ primitives


def _lin(coef, xs):
    acc = jnp.float32(coef[0])
    for c, x in zip(coef[1:], xs):
        acc = acc + jnp.float32(c) * jnp.asarray(x, jnp.float32)
    return acc


PRIMS = {
    "tanh_lin": lambda coef, *xs: 2.0 * jnp.tanh(_lin(coef, xs)),
    "lin": lambda coef, *xs: _lin(coef, xs),
    "prod": lambda coef, *xs: jnp.tanh(jnp.asarray(xs[0], jnp.float32) * jnp.asarray(xs[-1], jnp.float32)) * jnp.float32(coef[0] + 1.5),
    "exp_tanh": lambda coef, *xs: jnp.exp(jnp.tanh(_lin(coef, xs))),
    "sigm": lambda coef, *xs: 0.05 + 0.9 * jax.nn.sigmoid(_lin(coef, xs)),
    "meanv": lambda coef, *xs: jnp.mean(jnp.asarray(xs[0], jnp.float32)) * jnp.float32(coef[0] + 1.5),
    "pair": lambda coef, *xs: {"a": 2.0 * jnp.tanh(_lin(coef, xs)), "b": jnp.exp(jnp.tanh(_lin(coef, xs)))},
    "pick_a": lambda coef, *xs: xs[0]["a"] * jnp.float32(coef[0] + 1.5),
    "pick_b": lambda coef, *xs: xs[0]["b"],
    "group_lin": lambda coef, g: 2.0 * jnp.tanh(_lin(coef, list(g.args) + [g.kwargs[k] for k in sorted(g.kwargs)])),
    "seeded": lambda coef, *xs, seed=None: _lin(coef, xs) + 0.01 * jax.random.normal(seed, ()),
}
OUT_KIND = {"tanh_lin": "real", "lin": "real", "prod": "real", "exp_tanh": "pos", "sigm": "unit",
            "meanv": "real", "pick_a": "real", "pick_b": "pos", "group_lin": "real", "seeded": "real", "pair": "pair"}


class F1Error(Exception):
    """The injected failure of a user node function."""


GLOBAL_ARM: dict[str, int] = {}
"""F1 triggers shared by all copies of a node function (by node name): lets a fault be armed in
a model copy that is private to the system under test (the interface's internal model)."""
GLOBAL_FIRED: dict[str, int] = {}


class no_global_faults:
    """Reference computations run with the shared F1 triggers switched off."""

    def __enter__(self):
        self.saved = dict(GLOBAL_ARM)
        GLOBAL_ARM.clear()

    def __exit__(self, *exc):
        GLOBAL_ARM.clear()
        GLOBAL_ARM.update(self.saved)
        return False


class CountingFn:
    """A node function with a call counter and an armable F1 trigger (raise on the n-th call)."""

    def __init__(self, name: str, fn: str, coef):
        self.name = name
        self.fn = fn
        self.coef = list(coef)
        self.calls = 0
        self.raise_in = 0  # 0 = disarmed; n = raise on the n-th call from now
        self.fired = 0

    def __call__(self, *xs, **kw):
        self.calls += 1
        if self.name in GLOBAL_ARM:
            GLOBAL_ARM[self.name] -= 1
            if GLOBAL_ARM[self.name] <= 0:
                del GLOBAL_ARM[self.name]
                GLOBAL_FIRED[self.name] = GLOBAL_FIRED.get(self.name, 0) + 1
                raise F1Error(f"injected failure in node function of {self.name}")
        if self.raise_in > 0:
            self.raise_in -= 1
            if self.raise_in == 0:
                self.fired += 1
                raise F1Error(f"injected failure in node function of {self.name}")
        return PRIMS[self.fn](self.coef, *xs, **kw)


class CountingDist:
    """Distribution constructor with a call counter (one call per init_dist())."""

    def __init__(self, name: str, fam: str):
        self.name = name
        self.fam = fam
        self.calls = 0

    def __call__(self, *args, **kwargs):
        self.calls += 1
        return FAMILIES[self.fam]["tfd"](*args, **kwargs)


def _bernoulli(probs):
    # float-valued Bernoulli: the drawn value can feed real-valued parameters of children
    return tfd.Bernoulli(probs=probs, dtype=jnp.float32)


def _mvn3(loc, scale):
    # a distribution with a non-scalar event shape: 3-dimensional normal with diagonal covariance;
    # loc / scale may be scalars or vectors of length 3
    return tfd.MultivariateNormalDiag(loc=loc + jnp.zeros(3, jnp.float32), scale_diag=scale * jnp.ones(3, jnp.float32))


def _uniform_lw(low, width):
    # Uniform(low, low + width): its default event-space bijector, Sigmoid(low, high), depends on
    # the distribution's parameters
    return tfd.Uniform(low=low, high=low + width)


FAMILIES = {
    "normal": {"tfd": tfd.Normal, "params": {"loc": "real", "scale": "pos"}, "support": "real"},
    "gamma": {"tfd": tfd.Gamma, "params": {"concentration": "pos", "rate": "pos"}, "support": "pos"},
    "exponential": {"tfd": tfd.Exponential, "params": {"rate": "pos"}, "support": "pos"},
    "beta": {"tfd": tfd.Beta, "params": {"concentration1": "pos", "concentration0": "pos"}, "support": "unit"},
    "lognormal": {"tfd": tfd.LogNormal, "params": {"loc": "real", "scale": "pos"}, "support": "pos"},
    "halfnormal": {"tfd": tfd.HalfNormal, "params": {"scale": "pos"}, "support": "pos"},
    "invgamma": {"tfd": tfd.InverseGamma, "params": {"concentration": "pos", "scale": "pos"}, "support": "pos"},
    "bernoulli": {"tfd": _bernoulli, "params": {"probs": "unit"}, "support": "binary"},
    "poisson": {"tfd": tfd.Poisson, "params": {"rate": "pos"}, "support": "count"},
    "mvn3": {"tfd": _mvn3, "params": {"loc": "real", "scale": "pos"}, "support": "real", "event": 3},
    "uniform_lw": {"tfd": _uniform_lw, "params": {"low": "real", "width": "pos"}, "support": "real"},
}


def draw_value(rng, vk: str, shape):
    n = int(np.prod(shape)) if shape else 1

    def one():
        if vk == "real":
            return round(rng.uniform(-3, 3), 4)
        if vk == "pos":
            return round(rng.uniform(0.3, 3), 4)
        if vk == "unit":
            return round(rng.uniform(0.06, 0.94), 4)
        if vk == "binary":
            return float(rng.randint(0, 1))
        if vk == "count":
            return float(rng.randint(0, 6))
        raise ValueError(vk)

    vals = [one() for _ in range(n)]
    return vals if shape else vals[0]


def item_refs(it):
    """All ref dicts of a spec item (inputs, keyword inputs, dist args, at, transform argument)."""
    out = list(it.get("inputs", [])) + list(it.get("kw", {}).values())
    if "input" in it:
        out.append(it["input"])
    if "at" in it:
        out.append(it["at"])
    if it.get("dist"):
        out += list(it["dist"]["args"].values())
    if it.get("wdist"):
        out += list(it["wdist"]["args"].values())
    if it.get("transform") and it["transform"].get("arg"):
        out.append(it["transform"]["arg"])
    return out


def drop_item(spec, i):
    """Spec without item i (refs re-indexed), or None if another item refers to it."""
    for j, it in enumerate(spec):
        if j == i:
            continue
        if any(r.get("i") == i for r in item_refs(it)):
            return None
        if it["k"] == "group" and i in it["members"].values():
            return None
        if it.get("tight") and i in (it["tight"]["parent"], it["tight"]["mid"]):
            return None
    new = _copy.deepcopy(spec)
    del new[i]
    for it in new:
        for r in item_refs(it):
            if "i" in r and r["i"] > i:
                r["i"] -= 1
        if it["k"] == "group":
            it["members"] = {k: (j - 1 if j > i else j) for k, j in it["members"].items()}
        if it.get("tight"):
            for k in ("parent", "mid"):
                if it["tight"][k] > i:
                    it["tight"][k] -= 1
    return new


def item_names(it):
    n = it["name"]
    return {n, it.get("wrap"), f"{it.get('wrap')}_log_prob", f"{it.get('wrap')}_var_value", f"{n}_value", f"{n}_var_value", f"{n}_log_prob", f"{n}_transformed", f"{n}_transformed_value"}


def assignable_items(spec):
    """(name, via, kind, shape) of everything a client may assign (transform-aware)."""
    out = []
    for it in spec:
        if it.get("unnamed"):
            continue
        if it["k"] == "value":
            out.append((it["name"], "node", it["vk"], it.get("shape", [])))
        elif it["k"] == "var" and it.get("transform"):
            tk = t_kind(it["transform"])
            out.append((f"{it['name']}_transformed", "var", tk, it.get("shape", [])))
            out.append((f"{it['name']}_transformed_value", "node", tk, it.get("shape", [])))
        elif it["k"] == "var":
            out.append((it["name"], "var", it["vk"], it.get("shape", [])))
            out.append((f"{it['name']}_value", "node", it["vk"], it.get("shape", [])))
    return out


def compatible(have: str, want: str) -> bool:
    if want == "real":
        return have in ("real", "pos", "unit", "count", "binary")
    if want == "pos":
        return have in ("pos", "unit")
    if want == "unit":
        return have == "unit"
    return False


# ------------------------------------------------------------------ spec generation


def gen_spec(rng, n_items=(4, 14), p_dist=0.5, p_transient=0.3, p_vec=0.35, seeded_p=0.0,
             hier=False, families=None, allow_pair=True, allow_group=True, allow_bare=True,
             p_transform=0.0, transforms=None, roles=True, prefixes=("n", "v"), weak_dist_p=0.25) -> list[dict]:
    NP, VP = prefixes
    fams = families or [f for f in FAMILIES if f != "uniform_lw"]
    n = rng.randint(*n_items)
    items: list[dict] = []

    def pick_ref(want: str, shape_ok=None, prefer_var=False, below=None, scalar_only=False):
        cands = [i for i, it in enumerate(items) if it.get("vk") and compatible(it["vk"], want)
                 and not (scalar_only and it.get("shape") == [3])
                 and it["k"] in ("value", "var", "calc", "ident") and (below is None or i < below)
                 # positive / unit-interval parameters never read a *distributed* variable directly
                 # (only through bounded primitives): simulated hierarchies stay in ranges where
                 # tfp's rejection samplers terminate
                 and not (want in ("pos", "unit") and it["k"] == "var" and it.get("dist"))
                 and not (want in ("pos", "unit") and it["k"] == "ident")]
        if cands and rng.random() < 0.85:
            i = rng.choice(cands[-6:]) if rng.random() < 0.7 else rng.choice(cands)
            it = items[i]
            via = "node"
            if it["k"] == "var" or (it["k"] == "calc" and it.get("wrap")):
                via = "var" if (it["k"] == "var" or rng.random() < 0.7) else "node"
            return {"i": i, "via": via}
        return {"c": draw_value(rng, want if want != "real" else "real", [])}

    for idx in range(n):
        r = rng.random()
        shape = [3] if rng.random() < p_vec else []
        have_inputs = len(items) >= 1
        if not have_inputs or r < 0.18:
            vk = rng.choice(["real", "real", "pos", "unit"])
            items.append({"k": "value", "name": f"{NP}{idx}", "val": draw_value(rng, vk, shape), "vk": vk, "shape": shape})
        elif r < 0.50 and transforms and rng.random() < 0.2 and any(it["k"] in ("value", "var") and not it.get("dist") and it.get("vk") in ("real", "pos", "unit") and it.get("shape") == [] for it in items):
            # a variable whose distribution's *default bijector depends on its parameters*:
            # x ~ Uniform(low, low + width) with model-dependent low / width, always transformed
            # through a default-bijector entry point; the start value lies inside the support
            known = [i for i, it in enumerate(items) if it["k"] in ("value", "var") and not it.get("dist") and it.get("shape") == []]
            lows = [i for i in known if items[i]["vk"] in ("real", "pos", "unit")]
            widths = [i for i in known if items[i]["vk"] in ("pos",)]
            li = rng.choice(lows)
            low_ref = {"i": li, "via": "var" if items[li]["k"] == "var" else "node"}
            if widths and rng.random() < 0.7:
                wi = rng.choice(widths)
                width_ref, w0 = {"i": wi, "via": "var" if items[wi]["k"] == "var" else "node"}, items[wi]["val"]
            else:
                w0 = draw_value(rng, "pos", [])
                width_ref = {"c": w0}
            x0 = round(items[li]["val"] + rng.uniform(0.15, 0.85) * w0, 4)
            how = rng.choice([h for h in transforms if h in ("default", "auto", "gb_default")] or ["default"])
            items.append({"k": "var", "name": f"{VP}{idx}", "val": x0, "vk": "real", "shape": [], "role": rng.choice(["param", "param", None]),
                          "dist": {"fam": "uniform_lw", "args": {"low": low_ref, "width": width_ref}, "transient": False, "per_obs": rng.random() < 0.7},
                          "transform": {"how": how, "bij": None, "arg": None}})
        elif r < 0.50:
            # variable, strong, possibly with a distribution
            dist = None
            if rng.random() < p_dist:
                fam = rng.choice(fams)
                F = FAMILIES[fam]
                args = {p: pick_ref(k) for p, k in F["params"].items()}
                dist = {"fam": fam, "args": args, "transient": rng.random() < p_transient * 0.6,
                        "per_obs": rng.random() < 0.7}
                vk = F["support"]
                # the value must cover the batch shape of its distribution
                if any("i" in r_ and items[r_["i"]].get("shape") == [3] for r_ in args.values()):
                    shape = [3]
                if F.get("event"):
                    shape = [F["event"]]
                    dist["per_obs"] = True
            else:
                vk = rng.choice(["real", "real", "pos", "unit"])
            role = None
            if roles and dist is not None:
                role = rng.choice(["obs", "param", "param", None]) if vk not in ("binary", "count") else rng.choice(["obs", "obs", None])
            elif roles and rng.random() < 0.2:
                role = rng.choice(["obs", "param"])
            it = {"k": "var", "name": f"{VP}{idx}", "val": draw_value(rng, vk, shape), "vk": vk, "shape": shape,
                  "role": role, "dist": dist, "transform": None}
            if dist is not None and transforms and rng.random() < p_transform and not dist["transient"] and vk in ("pos", "unit", "real") and not FAMILIES[dist["fam"]].get("event"):
                # a bijector argument must not be larger than the variable it transforms
                it["transform"] = gen_transform(rng, dist["fam"], vk, transforms, lambda want: pick_ref(want, scalar_only=(shape == [])))
            items.append(it)
        elif r < 0.86:
            fn = rng.choice(["tanh_lin", "tanh_lin", "lin", "prod", "exp_tanh", "exp_tanh", "sigm", "meanv"] + (["pair"] if allow_pair else []))
            pairs = [i for i, it in enumerate(items) if it.get("vk") == "pair"]
            if pairs and rng.random() < 0.5:
                fn = rng.choice(["pick_a", "pick_b"])
                inputs = [{"i": rng.choice(pairs), "via": "node"}]
            elif fn == "meanv":
                vecs = [i for i, it in enumerate(items) if it.get("shape") == [3] and it.get("vk") not in (None, "pair") and it["k"] in ("value", "var", "calc")]
                if not vecs:
                    fn = "tanh_lin"
                    inputs = [pick_ref("real") for _ in range(rng.randint(1, 3))]
                else:
                    j = rng.choice(vecs)
                    inputs = [{"i": j, "via": "var" if items[j]["k"] == "var" else "node"}]
            else:
                inputs = [pick_ref("real") for _ in range(rng.randint(1, 3))]
                # triangles: a node listed *before* one of its own ancestors among the inputs
                # (the order in which inputs are listed must not matter for update sweeps)
                tri = [i for i, it in enumerate(items) if it["k"] == "calc" and it.get("vk") in ("real", "pos", "unit") and it.get("inputs")
                       and any("i" in r_ and items[r_["i"]].get("vk") in ("real", "pos", "unit", "count", "binary") and items[r_["i"]]["k"] in ("value", "var", "calc") for r_ in it["inputs"])]
                if tri and rng.random() < 0.3:
                    c_i = rng.choice(tri)
                    anc = rng.choice([r_ for r_ in items[c_i]["inputs"] if "i" in r_ and items[r_["i"]].get("vk") in ("real", "pos", "unit", "count", "binary") and items[r_["i"]]["k"] in ("value", "var", "calc")])
                    inputs = [{"i": c_i, "via": "var" if items[c_i].get("wrap") and rng.random() < 0.5 else "node"}, dict(anc)] + inputs[:1]
            coef = [round(rng.uniform(-0.7, 0.7), 3) for _ in range(len(inputs) + 1)]
            seeded = False
            if seeded_p and fn in ("lin", "tanh_lin") and rng.random() < seeded_p:
                fn, seeded = "seeded", True
            mode = "transient" if (rng.random() < p_transient and not seeded) else "cached"
            wrap = f"{VP}{idx}" if (fn != "pair" and rng.random() < 0.35) else None
            sh = [3] if any(("i" in r_ and items[r_["i"]].get("shape") == [3]) for r_ in inputs) and fn not in ("meanv",) else []
            wdist = None
            if wrap and mode == "cached" and OUT_KIND[fn] in ("real", "pos", "unit") and rng.random() < weak_dist_p:
                # a *weak* variable that carries a distribution (its Dist is evaluated at a Calc)
                wf = {"real": "normal", "pos": rng.choice(["gamma", "lognormal"]), "unit": "beta"}[OUT_KIND[fn]]
                wdist = {"fam": wf, "args": {p_: pick_ref(k_) for p_, k_ in FAMILIES[wf]["params"].items()}, "transient": False, "per_obs": rng.random() < 0.7}
                # such a variable may carry a flag too (e.g. an observed residual `obs(Calc(...), dist)`)
                wdist["role"] = rng.choice(["obs", "obs", "param", None]) if roles else None
            items.append({"k": "calc", "name": f"{NP}{idx}", "fn": fn, "coef": coef, "inputs": inputs, "mode": mode,
                          "wrap": wrap, "vk": OUT_KIND[fn], "shape": sh, "seeded": seeded, "wdist": wdist})
        elif r < 0.91:
            cands = [i for i, it in enumerate(items) if it.get("vk") not in (None, "pair") and it["k"] in ("value", "var", "calc")]
            if cands:
                j = rng.choice(cands)
                items.append({"k": "ident", "name": f"{NP}{idx}", "input": {"i": j, "via": "var" if items[j]["k"] == "var" else "node"},
                              "vk": items[j]["vk"], "shape": items[j].get("shape", [])})
            else:
                items.append({"k": "value", "name": f"{NP}{idx}", "val": draw_value(rng, "real", shape), "vk": "real", "shape": shape})
        elif r < 0.96 and allow_group:
            inputs = [pick_ref("real") for _ in range(rng.randint(1, 2))]
            kw = {f"k{j}": pick_ref("real") for j in range(rng.randint(0, 2))}
            items.append({"k": "igroup", "name": f"{NP}{idx}", "inputs": inputs, "kw": kw, "vk": None})
            coef = [round(rng.uniform(-0.7, 0.7), 3) for _ in range(len(inputs) + len(kw) + 1)]
            sh = [3] if any(("i" in r_ and items[r_["i"]].get("shape") == [3]) for r_ in inputs + list(kw.values())) else []
            items.append({"k": "calc", "name": f"{NP}{idx}g", "fn": "group_lin", "coef": coef,
                          "inputs": [{"i": len(items) - 1, "via": "node"}], "mode": "cached" if rng.random() < 0.7 else "transient",
                          "wrap": None, "vk": "real", "shape": sh, "seeded": False})
        elif allow_bare:
            fam = rng.choice(["normal", "gamma", "exponential"])
            F = FAMILIES[fam]
            cands = [i for i, it in enumerate(items) if it["k"] in ("value", "calc") and it.get("vk") and compatible(it["vk"], F["support"]) and not it.get("wrap")]
            if cands:
                j = rng.choice(cands)
                # parameters must not depend on the evaluation point (liesel's simulation graph
                # reverses the dist -> at edge and would contain a cycle)
                args = {p: pick_ref(k, below=j) for p, k in F["params"].items()}
                items.append({"k": "baredist", "name": f"{NP}{idx}", "at": {"i": j, "via": "node"},
                              "dist": {"fam": fam, "args": args, "transient": False, "per_obs": rng.random() < 0.6}, "vk": None})
            else:
                items.append({"k": "value", "name": f"{NP}{idx}", "val": draw_value(rng, "real", shape), "vk": "real", "shape": shape})
        else:
            items.append({"k": "value", "name": f"{NP}{idx}", "val": draw_value(rng, "real", shape), "vk": "real", "shape": shape})
    # A seeded node has no value before the model is built (its seed input is wired by the
    # builder), and GraphBuilder.add() reads the value of every node, computing transient nodes on
    # the fly: a transient descendant of a seeded node makes add() itself raise.  Such programs
    # cannot be handed to the builder at all, so the generator does not produce them.
    desc_of: dict[int, set] = {}
    for i, it in enumerate(items):
        for r in item_refs(it):
            if "i" in r:
                desc_of.setdefault(r["i"], set()).add(i)
    for i, it in enumerate(items):
        if it["k"] == "calc" and it.get("seeded"):
            seen, stack = set(), [i]
            while stack:
                for j in desc_of.get(stack.pop(), ()):
                    if j not in seen:
                        seen.add(j)
                        stack.append(j)
            if any(items[j]["k"] in ("ident", "igroup") or items[j].get("mode") == "transient" or (items[j].get("dist") or {}).get("transient") for j in seen):
                it["seeded"], it["fn"] = False, "lin"
    return items


HOWS = ["instance", "class", "class_pos", "default", "auto", "gb_instance", "gb_class", "gb_default"]
HAS_DEFAULT = ("gamma", "exponential", "beta", "halfnormal", "lognormal", "invgamma", "uniform_lw")


def gen_transform(rng, fam, vk, hows, pick_ref):
    """A (how, bijector, argument) triple admissible for a variable of kind vk / family fam."""
    opts = []
    for how in hows:
        if how in ("default", "auto", "gb_default"):
            if fam in HAS_DEFAULT:
                opts.append((how, None))
        elif how in ("instance", "gb_instance"):
            if vk == "pos":
                opts += [(how, "exp"), (how, "softplus")]
            elif vk == "unit":
                opts.append((how, "sigmoid"))
        else:  # class with (possibly model-dependent) arguments
            if vk == "pos":
                opts += [(how, "scale"), (how, "softplus_h")]
            elif vk == "real":
                opts.append((how, "shift"))
    if not opts:
        return None
    how, bij = rng.choice(opts)
    arg = None
    if bij in ("scale", "softplus_h"):
        arg = pick_ref("pos")
    elif bij == "shift":
        arg = pick_ref("real")
    return {"how": how, "bij": bij, "arg": arg}


def t_kind(tr) -> str:
    """Kind of values the new (transformed) variable may take."""
    return "pos" if tr["bij"] == "scale" else "real"


def jnp_bijector(tr, arg_value=None):
    if tr["bij"] == "exp":
        return tfb.Exp()
    if tr["bij"] == "softplus":
        return tfb.Softplus()
    if tr["bij"] == "sigmoid":
        return tfb.Sigmoid()
    if tr["bij"] == "scale":
        return tfb.Scale(scale=arg_value)
    if tr["bij"] == "softplus_h":
        return tfb.Softplus(hinge_softness=arg_value)
    if tr["bij"] == "shift":
        return tfb.Shift(shift=arg_value)
    raise ValueError(tr)


BIJ_CLASS = {"scale": (tfb.Scale, "scale"), "softplus_h": (tfb.Softplus, "hinge_softness"), "shift": (tfb.Shift, "shift")}


# ------------------------------------------------------------------ building the real objects


class Built:
    """The liesel objects made from a spec (before build_model)."""

    def __init__(self):
        self.obj: dict[int, Any] = {}      # item index -> Var | Node
        self.node: dict[int, Node] = {}    # item index -> underlying node (value node / calc / dist)
        self.fns: dict[str, CountingFn] = {}
        self.dists: dict[str, CountingDist] = {}
        self.roots: list = []
        self.groups: list = []


def _resolve(b: Built, ref):
    if "c" in ref:
        return jnp.asarray(ref["c"], jnp.float32)
    o = b.obj[ref["i"]]
    if ref.get("via") == "node":
        return b.node[ref["i"]]
    return o


def make_dist(b: Built, name: str, D: dict, unnamed=False) -> Dist:
    cd = CountingDist(name, D["fam"])
    b.dists[name] = cd
    cls = TransientDist if D.get("transient") else Dist
    kwargs = {p: _resolve(b, r) for p, r in D["args"].items()}
    d = cls(cd, _name="" if unnamed else name, **kwargs)
    d.per_obs = D.get("per_obs", True)
    return d


def apply_transform(b: Built, v: Var, tr: dict):
    import warnings

    how = tr["how"]
    if how == "auto":
        v.auto_transform = True
        return None
    arg = _resolve(b, tr["arg"]) if tr.get("arg") else None
    with warnings.catch_warnings():
        warnings.simplefilter("ignore")
        if how == "instance":
            return v.transform(jnp_bijector(tr))
        if how == "class":
            cls, kw = BIJ_CLASS[tr["bij"]]
            return v.transform(cls, **{kw: arg})
        if how == "class_pos":
            # the bijector argument handed over positionally
            cls, kw = BIJ_CLASS[tr["bij"]]
            return v.transform(cls, arg)
        if how == "default":
            return v.transform(None)
        if how == "gb_instance":
            return b.gb.transform(v, jnp_bijector(tr))
        if how == "gb_class":
            cls, kw = BIJ_CLASS[tr["bij"]]
            return b.gb.transform(v, cls, **{kw: arg})
        if how == "gb_default":
            return b.gb.transform(v, None)
    raise ValueError(how)


def construct(spec: list[dict], names=True) -> Built:
    b = Built()
    b.gb = lsl.GraphBuilder()
    for i, it in enumerate(spec):
        k = it["k"]
        un = bool(it.get("unnamed"))
        if k == "value":
            n = Value(jnp.asarray(it["val"], jnp.float32), _name="" if un else it["name"])
            b.obj[i] = b.node[i] = n
        elif k == "var":
            dist = make_dist(b, f"{it['name']}_log_prob", it["dist"], un) if it["dist"] else None
            v = Var(int(it["val"]) if it.get("int_init") else jnp.asarray(it["val"], jnp.float32), dist, name="" if un else it["name"])
            if it.get("role") == "obs":
                v.observed = True
            elif it.get("role") == "param":
                v.parameter = True
            b.obj[i] = v
            b.node[i] = v.value_node
            tr = it.get("transform")
            if tr:
                if tr["how"].startswith("gb_"):
                    # the deprecated builder method names unnamed nodes right away: everything
                    # made so far must already be in the builder for those names to be unique
                    for j in range(i):
                        if spec[j]["k"] != "group":
                            b.gb.add(b.obj[j])
                apply_transform(b, v, tr)
                b.node[i] = v.value_node
        elif k == "calc":
            f = CountingFn(it["name"], it["fn"], it["coef"])
            b.fns[it["name"]] = f
            cls = TransientCalc if it["mode"] == "transient" else Calc
            ins = [_resolve(b, r) for r in it["inputs"]]
            c = cls(f, *ins, _name="" if un else it["name"], _needs_seed=bool(it.get("seeded")))
            b.node[i] = c
            if it.get("wrap"):
                wd = make_dist(b, f"{it['wrap']}_log_prob", it["wdist"], un) if it.get("wdist") else None
                v = Var(c, wd, name="" if un else it["wrap"])
                wrole = (it.get("wdist") or {}).get("role")
                if wrole == "obs":
                    v.observed = True
                elif wrole == "param":
                    v.parameter = True
                b.obj[i] = v
            else:
                b.obj[i] = c
        elif k == "ident":
            n = TransientIdentity(_resolve(b, it["input"]), _name="" if un else it["name"])
            b.obj[i] = b.node[i] = n
        elif k == "igroup":
            n = InputGroup(*[_resolve(b, r) for r in it["inputs"]], _name=it["name"],
                           **{kw: _resolve(b, r) for kw, r in it["kw"].items()})
            b.obj[i] = b.node[i] = n
        elif k == "baredist":
            d = make_dist(b, it["name"], it["dist"])
            d.at = b.node[it["at"]["i"]]
            b.obj[i] = b.node[i] = d
        elif k == "group":
            members = {key: b.obj[j] for key, j in it["members"].items()}
            b.obj[i] = lsl.Group(it["name"], **members)
            b.groups.append(b.obj[i])
    return b


def read_back_names(spec, b: Built) -> list[dict]:
    """Runtime copy of the spec in which unnamed items carry the names the builder gave them."""
    rt = _copy.deepcopy(spec)
    for i, it in enumerate(rt):
        if not it.get("unnamed"):
            continue
        if it["k"] == "var":
            it["name"] = b.obj[i].name
        elif it["k"] == "calc":
            it["name"] = b.node[i].name
            if it.get("wrap"):
                it["wrap"] = b.obj[i].name
        else:
            it["name"] = b.node[i].name
    return rt


def reset_counters(b: Built):
    for f in b.fns.values():
        f.calls = 0
    for d in b.dists.values():
        d.calls = 0


def build_model(spec, copy=False):
    """Builds the generated program. Generated programs are valid, so an exception from liesel
    here is the system under test failing a legitimate call (SutError -> violation)."""
    from simkit.core import SutError

    where = "construct"
    try:
        b = construct(spec)
        gb = b.gb
        where = "GraphBuilder.add"
        for i, it in enumerate(spec):
            if it["k"] != "group":
                gb.add(b.obj[i])
        where = "build_model"
        model = gb.build_model(copy=copy)
    except SutError:
        raise
    except Exception as e:
        raise SutError(f"{where}|{type(e).__name__}|?|{e}") from e
    return b, model


# ------------------------------------------------------------------ reference evaluator


def node_inputs_from_spec(spec) -> dict[str, list[str]]:
    """Node-level input relation (incl. Dist.at) re-derived from the plan, by node name."""

    def ref_node(r):
        if "c" in r:
            return None
        it = spec[r["i"]]
        if it["k"] == "var":
            return f"{it['name']}_var_value" if r.get("via") != "node" else f"{it['name']}_value"
        if it["k"] == "calc" and it.get("wrap") and r.get("via") == "var":
            return f"{it['wrap']}_var_value"
        return it["name"]

    rel: dict[str, list[str]] = {}
    for it in spec:
        k = it["k"]
        if k == "value":
            rel[it["name"]] = []
        elif k == "var" and it.get("transform"):
            # the original variable becomes weak; its value node and the new distribution node
            # (whose inputs include builder-made InputGroups) are taken from the real structure
            tn = f"{it['name']}_transformed"
            rel[f"{tn}_value"] = []
            rel[f"{tn}_var_value"] = [f"{tn}_value"]
            rel[f"{it['name']}_var_value"] = [f"{it['name']}_value"]
        elif k == "var":
            rel[f"{it['name']}_value"] = []
            rel[f"{it['name']}_var_value"] = [f"{it['name']}_value"]
            if it["dist"]:
                rel[f"{it['name']}_log_prob"] = [x for x in (ref_node(r) for r in it["dist"]["args"].values()) if x] + [f"{it['name']}_var_value"]
        elif k == "calc":
            rel[it["name"]] = [x for x in (ref_node(r) for r in it["inputs"]) if x]
            if it.get("wrap"):
                rel[f"{it['wrap']}_var_value"] = [it["name"]]
                if it.get("wdist"):
                    rel[f"{it['wrap']}_log_prob"] = [x for x in (ref_node(r) for r in it["wdist"]["args"].values()) if x] + [f"{it['wrap']}_var_value"]
        elif k == "ident":
            rel[it["name"]] = [x for x in [ref_node(it["input"])] if x]
        elif k == "igroup":
            rel[it["name"]] = [x for x in (ref_node(r) for r in list(it["inputs"]) + list(it["kw"].values())) if x]
        elif k == "baredist":
            rel[it["name"]] = [x for x in (ref_node(r) for r in it["dist"]["args"].values()) if x] + [ref_node(it["at"])]
    return rel


def closure(rel: dict[str, list[str]], start: str) -> set[str]:
    seen = set()
    stack = [start]
    while stack:
        n = stack.pop()
        for m in rel.get(n, []):
            if m not in seen:
                seen.add(m)
                stack.append(m)
    return seen


class RefGraph:
    """From-scratch evaluator of the spec: holds only current input values."""

    def __init__(self, spec, seeds=None):
        self.spec = spec
        self.inputs: dict[str, Any] = {}
        for it in spec:
            if it["k"] == "value":
                self.inputs[it["name"]] = jnp.asarray(it["val"], jnp.float32)
            elif it["k"] == "var" and it.get("transform"):
                # the initial unconstrained value is produced by liesel; it is read from the
                # model by sync_transformed() and checked against the closed form by C14
                self.inputs[f"{it['name']}_transformed_value"] = None
            elif it["k"] == "var":
                self.inputs[f"{it['name']}_value"] = jnp.asarray(it["val"], jnp.float32)
        self.seeds: dict[str, Any] = dict(seeds or {})
        self.hooks: dict[str, Any] = {}

    def sync_transformed(self, model):
        for it in self.spec:
            if it["k"] == "var" and it.get("transform"):
                node = model.nodes[f"{it['name']}_value"]
                self.hooks[it["name"]] = (lambda val, node=node: eval_node_from(node, val))
        for it in self.spec:
            if it["k"] == "var" and it.get("transform"):
                key = f"{it['name']}_transformed_value"
                if self.inputs.get(key) is None:
                    self.inputs[key] = model.nodes[key].value

    def input_names(self):
        return list(self.inputs)

    def eval(self) -> dict[str, Any]:
        spec = self.spec
        val: dict[str, Any] = {}

        def ref_val(r):
            if "c" in r:
                return jnp.asarray(r["c"], jnp.float32)
            it = spec[r["i"]]
            if it["k"] == "var":
                return val[f"{it['name']}_value"]
            return val[it["name"]]

        def dist_obj(D):
            F = FAMILIES[D["fam"]]
            return F["tfd"](**{p: ref_val(r) for p, r in D["args"].items()})

        def dist_val(D, at):
            F = FAMILIES[D["fam"]]
            d = F["tfd"](**{p: ref_val(r) for p, r in D["args"].items()})
            lp = d.log_prob(at)
            if not D.get("per_obs", True) and hasattr(lp, "sum"):
                lp = lp.sum()
            return lp

        for it in spec:
            k = it["k"]
            if k == "value":
                val[it["name"]] = self.inputs[it["name"]]
            elif k == "var" and it.get("transform"):
                tr = it["transform"]
                tn = f"{it['name']}_transformed"
                t = self.inputs[f"{tn}_value"]
                val[f"{tn}_value"] = t
                val[f"{tn}_var_value"] = t
                hook = self.hooks.get(it["name"])
                if hook is not None:
                    # from scratch through the node's own function on reference inputs (the
                    # entry points differ in the order of float32 operations, so bit-exactness
                    # with a hand-written forward map cannot be demanded)
                    x = hook(val)
                elif tr["bij"] is None:
                    x = dist_obj(it["dist"]).experimental_default_event_space_bijector().forward(t)
                else:
                    x = jnp_bijector(tr, ref_val(tr["arg"]) if tr.get("arg") else None).forward(t)
                val[f"{it['name']}_value"] = x
                val[f"{it['name']}_var_value"] = x
            elif k == "var":
                v = self.inputs[f"{it['name']}_value"]
                val[f"{it['name']}_value"] = v
                val[f"{it['name']}_var_value"] = v
                if it["dist"]:
                    val[f"{it['name']}_log_prob"] = dist_val(it["dist"], v)
            elif k == "calc":
                xs = [ref_val(r) for r in it["inputs"]]
                kw = {}
                if it.get("seeded"):
                    kw["seed"] = self.seeds.get(it["name"], jax.random.PRNGKey(0))
                out = PRIMS[it["fn"]](it["coef"], *xs, **kw)
                val[it["name"]] = out
                if it.get("wrap"):
                    val[f"{it['wrap']}_var_value"] = out
                    if it.get("wdist"):
                        val[f"{it['wrap']}_log_prob"] = dist_val(it["wdist"], out)
            elif k == "ident":
                val[it["name"]] = ref_val(it["input"])
            elif k == "igroup":
                val[it["name"]] = ArgGroup([ref_val(r) for r in it["inputs"]], {kw: ref_val(r) for kw, r in it["kw"].items()})
            elif k == "baredist":
                val[it["name"]] = dist_val(it["dist"], ref_val(it["at"]))
        return val


def eval_node_from(node, val: dict):
    """Value of a model node recomputed from scratch: reference values where the spec knows the
    node, otherwise recursively through the node's own function (no cache is read except for
    hidden constant Value nodes)."""
    if node.name in val:
        return val[node.name]
    if isinstance(node, Value):
        return node.value
    ins = [eval_node_from(n, val) for n in node.inputs]
    kw = {k: eval_node_from(n, val) for k, n in node.kwinputs.items()}
    if isinstance(node, InputGroup):
        return ArgGroup(ins, kw)
    if isinstance(node, Dist):
        lp = node.distribution(*ins, **kw).log_prob(eval_node_from(node.at, val))
        if not node.per_obs and hasattr(lp, "sum"):
            lp = lp.sum()
        return lp
    if isinstance(node, Calc):
        return node.function(*ins, **kw)
    raise TypeError(type(node))


def same_value(a, b, tol=None) -> bool:
    """Equality of two node values (arrays, dicts of arrays, ArgGroups): bit-exact, or within a
    relative/absolute tolerance `tol` where bit-exactness cannot be demanded."""
    if isinstance(a, ArgGroup) or isinstance(b, ArgGroup):
        if not (isinstance(a, ArgGroup) and isinstance(b, ArgGroup)):
            return False
        return same_value(list(a.args), list(b.args), tol) and same_value(dict(a.kwargs), dict(b.kwargs), tol)
    if isinstance(a, dict) or isinstance(b, dict):
        if not (isinstance(a, dict) and isinstance(b, dict)) or sorted(a) != sorted(b):
            return False
        return all(same_value(a[k], b[k], tol) for k in a)
    if isinstance(a, (list, tuple)) or isinstance(b, (list, tuple)):
        if not isinstance(a, (list, tuple)) or not isinstance(b, (list, tuple)) or len(a) != len(b):
            return False
        return all(same_value(x, y, tol) for x, y in zip(a, b))
    if a is None or b is None:
        return a is None and b is None
    x, y = np.asarray(a), np.asarray(b)
    if tol is not None:
        return x.dtype == y.dtype and x.shape == y.shape and bool(
            np.allclose(x.astype(np.float64), y.astype(np.float64), rtol=tol, atol=tol, equal_nan=True)
        )
    return x.dtype == y.dtype and x.shape == y.shape and x.tobytes() == y.tobytes()


def show(v) -> str:
    try:
        if isinstance(v, ArgGroup):
            return f"ArgGroup({[np.asarray(x).tolist() for x in v.args]}, {{...}})"
        if isinstance(v, dict):
            return "{" + ", ".join(f"{k}: {np.asarray(x).tolist()}" for k, x in v.items()) + "}"
        return str(np.asarray(v).tolist())
    except Exception:
        return repr(v)[:80]


def generic_eval(model, val: dict[str, Any]) -> dict[str, Any]:
    """Reference values for model nodes the spec does not describe (``_model_*`` totals, hidden
    constant Values, nodes created by transformations): recomputed from scratch through the
    node's own function on reference input values, in a topological order derived here."""
    nodes = dict(model.nodes)
    out = dict(val)
    pending = [n for n in nodes if n not in out]
    guard = 0
    while pending and guard < 10000:
        guard += 1
        name = pending.pop(0)
        node = nodes[name]
        ins = list(node.inputs) + list(node.kwinputs.values())
        at = getattr(node, "at", None) if isinstance(node, Dist) else None
        needed = [n.name for n in ins] + ([at.name] if at is not None else [])
        if any(n not in out for n in needed):
            pending.append(name)
            continue
        if isinstance(node, Value):
            out[name] = node.value
        elif isinstance(node, InputGroup):
            out[name] = ArgGroup([out[n.name] for n in node.inputs], {kw: out[n.name] for kw, n in node.kwinputs.items()})
        elif isinstance(node, Dist):
            d = node.distribution(*[out[n.name] for n in node.inputs], **{kw: out[n.name] for kw, n in node.kwinputs.items()})
            lp = d.log_prob(out[at.name])
            if not node.per_obs and hasattr(lp, "sum"):
                lp = lp.sum()
            out[name] = lp
        elif isinstance(node, Calc):
            out[name] = node.function(*[out[n.name] for n in node.inputs], **{kw: out[n.name] for kw, n in node.kwinputs.items()})
        else:
            out[name] = node.value
    return out


def is_caching(node) -> bool:
    return isinstance(node, (Calc, Dist)) and not isinstance(node, TransientNode)


# ------------------------------------------------------------------ live simulation of op histories


def live_counters(model) -> dict[str, int]:
    out = {}
    for name, node in model.nodes.items():
        if isinstance(node, Dist):
            d = node.distribution
            if isinstance(d, CountingDist):
                out[name] = d.calls
        elif isinstance(node, Calc):
            f = node.function
            if isinstance(f, CountingFn):
                out[name] = f.calls
    return out


def live_fired(model) -> int:
    return sum(n.function.fired for n in model.nodes.values() if isinstance(n, Calc) and isinstance(n.function, CountingFn))


class quiet_counters:
    """Context manager: reference evaluation must not disturb call counters or F1 triggers."""

    def __init__(self, model):
        self.model = model

    def __enter__(self):
        self.saved = []
        for node in self.model.nodes.values():
            if isinstance(node, Calc) and isinstance(node.function, CountingFn):
                f = node.function
                self.saved.append((f, f.calls, f.raise_in, f.fired))
                f.raise_in = 0
            elif isinstance(node, Dist) and isinstance(node.distribution, CountingDist):
                d = node.distribution
                self.saved.append((d, d.calls, None, None))

    def __exit__(self, *exc):
        for o, calls, raise_in, fired in self.saved:
            o.calls = calls
            if raise_in is not None:
                o.raise_in = raise_in
                o.fired = fired
        return False


class ModelSim:
    """Applies ops to a real Model and keeps the reference state next to it."""

    def __init__(self, spec, model, V, log, prop="C01"):
        self.spec = spec
        self.model = model
        self.V = V
        self.log = log
        self.ref = RefGraph(spec)
        self.ref.sync_transformed(model)
        # node-level ancestor relation: from the spec, completed with the real structure for
        # nodes the spec does not describe (_model_* totals, hidden constants)
        self.rel = node_inputs_from_spec(spec)
        for it in spec:
            # the builder wires a seed Value as the `seed` keyword input of every seeded node
            if it["k"] == "calc" and it.get("seeded"):
                self.rel[it["name"]] = self.rel[it["name"]] + [f"_model_{it['name']}_seed"]
        for name, node in model.nodes.items():
            if name not in self.rel:
                self.rel[name] = [n.name for n in node.all_input_nodes()]
        self.desc: dict[str, set[str]] = {}
        anc = {n: closure(self.rel, n) for n in self.rel}
        for n, a in anc.items():
            for m in a:
                self.desc.setdefault(m, set()).add(n)
        self.anc = anc
        self.stale: set[str] = set()
        self.snaps: list = []
        self.auto = True
        # TFP bijectors cache forward/inverse pairs by object identity, so b(b^-1(x)) may return
        # x itself instead of the recomputed value: with transformed variables in the program a
        # from-scratch evaluation is reproducible only up to float32 rounding
        self.tol = 5e-6 if any(it.get("transform") for it in spec) else None
        self.counters = {"ops": 0}
        self.f1_fired = 0
        self.seed_names = [n for n in model.nodes if n.startswith("_model_") and n.endswith("_seed")]

    def bump(self, k, n=1):
        self.counters[k] = self.counters.get(k, 0) + n

    # -- reference values for every model node
    def ref_values(self):
        with quiet_counters(self.model):
            # seeds currently held by the model's seed nodes feed the seeded calcs of the spec
            for it in self.spec:
                if it["k"] == "calc" and it.get("seeded"):
                    sn = f"_model_{it['name']}_seed"
                    if sn in self.model.nodes:
                        self.ref.seeds[it["name"]] = self.model.nodes[sn].value
            return generic_eval(self.model, self.ref.eval())

    def check_coherence(self, where: str, kind_of=None):
        """(a) every node reporting up to date holds the from-scratch value; (e) state read-back."""
        model = self.model
        refv = self.ref_values()
        with quiet_counters(model):
            state = model.state
            for name, node in model.nodes.items():
                od = node.outdated
                if state[name].outdated != od:
                    self.V.add("state-readback", "flag", f"{where}: Model.state[{name}].outdated = {state[name].outdated}, node says {od}")
                if od:
                    continue
                if name not in refv:
                    continue
                got = node.value
                if not same_value(got, refv[name], self.tol):
                    self.V.add("coherence", f"{type(node).__name__}/{where.split(':')[0]}",
                               f"{where}: node {name} ({type(node).__name__}) reports up to date but holds {show(got)}; "
                               f"from-scratch value is {show(refv[name])}")
                    return False
                if not isinstance(node, TransientNode) and not same_value(state[name].value, got):
                    self.V.add("state-readback", "value", f"{where}: Model.state[{name}].value differs from node.value")
        return True

    def n_outdated(self):
        with quiet_counters(self.model):
            return [n for n, node in self.model.nodes.items() if node.outdated]

    # -- ops
    def apply(self, i, op):
        kind = op[0]
        model = self.model
        self.counters["ops"] += 1
        before = live_counters(model)
        fired0 = live_fired(model)
        fired_map0 = {n: node.function.fired for n, node in model.nodes.items() if isinstance(node, Calc) and isinstance(node.function, CountingFn)}
        raised = None
        where = f"{kind}:#{i}"
        stale0 = set(self.stale)
        targets = None
        if kind == "assign":
            _, name, via, val = op
            v = jnp.asarray(val, jnp.float32)
            node_name = name if via == "node" else f"{name}_value"
            stale0 |= self.desc.get(node_name, set())
            self.stale |= self.desc.get(node_name, set())
            try:
                if via == "var":
                    model.vars[name].value = v
                else:
                    model.nodes[name].value = v
            except RuntimeError as e:
                raised = e
            self.ref.inputs[node_name] = v
            if raised is not None:
                # F1 relaxation: the assignment itself may or may not have taken effect
                self.ref.inputs[node_name] = model.nodes[node_name].value
            self.bump("op.assign")
            if not self.auto:
                self.bump("probe.assign_with_auto_update_off")
        elif kind == "auto":
            model.auto_update = bool(op[1])
            self.auto = bool(op[1])
            self.bump("op.auto_toggle")
        elif kind == "update":
            try:
                model.update()
            except RuntimeError as e:
                raised = e
            self.bump("op.update")
        elif kind == "update_t":
            targets = [n for n in op[1] if n in model.nodes]
            try:
                model.update(*targets)
            except RuntimeError as e:
                raised = e
            self.bump("op.update_targeted")
        elif kind == "snap":
            with quiet_counters(model):
                s = model.state
            dirty = any(ns.outdated for ns in s.values())
            self.snaps.append((s, dict(self.ref.inputs), set(self.stale), dict(self.ref.seeds)))
            self.bump("op.snapshot")
            if dirty:
                self.bump("probe.snapshot_taken_while_dirty")
        elif kind == "restore":
            if self.snaps:
                s, inputs, stale, seeds = self.snaps[op[1] % len(self.snaps)]
                model.state = s
                self.ref.inputs = dict(inputs)
                self.ref.seeds = dict(seeds)
                self.stale = set(stale)
                self.bump("op.restore")
                if any(ns.outdated for ns in s.values()):
                    self.bump("probe.dirty_snapshot_restored")
        elif kind == "arm":
            node = model.nodes.get(op[1])
            if node is not None and isinstance(node, Calc) and isinstance(node.function, CountingFn):
                node.function.raise_in = int(op[2])
                self.bump("fault.F1_armed")
        elif kind == "set_seed":
            if self.seed_names:
                key = jax.random.PRNGKey(op[1])
                for sn in self.seed_names:
                    self.stale |= self.desc.get(sn, set())
                stale0 = set(self.stale)
                try:
                    model.set_seed(key)
                except RuntimeError as e:
                    raised = e
                self.bump("op.set_seed")
        else:
            raise ValueError(kind)
        after = live_counters(model)
        fired = live_fired(model) - fired0
        self.f1_fired += fired
        if fired:
            self.bump("fault.F1_fired", fired)
            if kind == "assign":
                self.bump("probe.F1_inside_assignment_sweep")
            elif kind == "update":
                self.bump("probe.F1_inside_full_update")
            elif kind == "update_t":
                self.bump("probe.F1_inside_targeted_update")
        if raised is not None and not fired:
            self.V.add("unexpected-exception", f"{kind}/{type(raised).__name__}", f"{where}: {raised}")
            return
        if fired and raised is None:
            self.V.add("fault-swallowed", kind, f"{where}: a node function raised but {kind} returned normally")
        self.log.add(i, op, "raised" if raised else "ok")
        # (d) call counters
        if kind in ("assign", "update", "update_t"):
            for name, c1 in after.items():
                d = c1 - before.get(name, 0)
                node = model.nodes[name]
                if not is_caching(node) or d == 0:
                    continue
                if d > 1 and kind != "set_seed":
                    self.V.add("evaluated-more-than-once", f"{type(node).__name__}/{kind}", f"{where}: caching node {name} was evaluated {d} times in one {kind}")
                if name not in stale0:
                    self.V.add("evaluated-without-cause", f"{type(node).__name__}/{kind}",
                               f"{where}: caching node {name} was evaluated although none of its ancestors was assigned since it was last computed")
                if kind == "update_t" and targets is not None:
                    allowed = set(targets)
                    for t in targets:
                        allowed |= self.anc.get(t, set())
                    if name not in allowed:
                        self.bump("probe.targeted_update_touched_non_ancestor")
        # bookkeeping of the stale model: a node is computed iff its function ran without raising
        if kind in ("assign", "update", "update_t", "set_seed"):
            for name, c1 in after.items():
                d = c1 - before.get(name, 0)
                if d and is_caching(model.nodes[name]):
                    f = getattr(model.nodes[name], "function", None)
                    failed_here = isinstance(f, CountingFn) and f.fired > fired_map0.get(name, 0)
                    if not failed_here:
                        self.stale.discard(name)
            if kind == "set_seed":
                # several assignments (one per seed node) and sweeps inside one call: a node may be
                # computed by the first sweep and become stale again through the second seed; for
                # this op the stale model follows liesel's own flags (values are still checked)
                for sn in self.seed_names:
                    for name in self.desc.get(sn, ()):
                        if name in model.nodes and is_caching(model.nodes[name]):
                            (self.stale.add if model.nodes[name].outdated else self.stale.discard)(name)
            # uncounted caching nodes (_model_* totals etc.) follow liesel's own flag
            for name, node in model.nodes.items():
                if is_caching(node) and name not in after and name in self.stale and not node.outdated:
                    self.stale.discard(name)
        # (a), (e)
        ok = self.check_coherence(where)
        # (b), (c)
        if raised is None and kind == "update":
            od = self.n_outdated()
            if od:
                self.V.add("full-update-leaves-outdated", type(model.nodes[od[0]]).__name__, f"{where}: after update() nodes {od[:5]} still report outdated")
        if raised is None and kind == "update_t" and targets:
            need = set(targets)
            for t in targets:
                need |= self.anc.get(t, set())
            with quiet_counters(model):
                bad = [n for n in need if n in model.nodes and model.nodes[n].outdated]
            if bad:
                self.V.add("targeted-update-incomplete", type(model.nodes[bad[0]]).__name__,
                           f"{where}: after update({targets}) node {bad[0]} (target or ancestor) still reports outdated")
            left = [n for n in self.n_outdated()]
            if left:
                self.bump("probe.targeted_update_left_others_outdated")
        if raised is None and kind == "assign" and self.auto:
            od = self.n_outdated()
            if od:
                self.V.add("auto-update-leaves-outdated", type(model.nodes[od[0]]).__name__, f"{where}: auto-update on, but nodes {od[:5]} report outdated after the assignment")
        return ok

    def _just_fired(self, model):
        # names of calc nodes whose trigger fired and is now disarmed (fired counter > 0)
        return {n for n, node in model.nodes.items() if isinstance(node, Calc) and isinstance(node.function, CountingFn) and node.function.fired > 0}

    def f1_pending(self):
        return any(isinstance(n, Calc) and isinstance(n.function, CountingFn) and n.function.raise_in > 0 for n in self.model.nodes.values())

"""Worker side of the runner: imports jax/liesel once per process, then executes plans."""

from __future__ import annotations

import faulthandler
import importlib
import os
import sys
import time
import traceback

_READY = False
_RSS_MARK = None
RSS_GROWTH_MB = int(os.environ.get("VERIF_RSS_GROWTH_MB", "512"))


def _rss_mb() -> float:
    try:
        with open("/proc/self/statm") as fh:
            return int(fh.read().split()[1]) * os.sysconf("SC_PAGE_SIZE") / 2**20
    except Exception:
        return 0.0


def _bound_memory() -> None:
    """Every run jit-compiles fresh closures, and jax keeps the executables; in long batches
    that is several GB per worker.  When the resident set has grown by RSS_GROWTH_MB since the
    last mark, drop jax's compilation caches between runs (never inside one: the event log of a
    run does not depend on what is cached, which the determinism self-test checks with different
    worker counts)."""
    global _RSS_MARK
    now = _rss_mb()
    if _RSS_MARK is None:
        _RSS_MARK = now
        return
    if now - _RSS_MARK < RSS_GROWTH_MB:
        return
    import gc

    import jax

    jax.clear_caches()
    gc.collect()
    try:
        import ctypes

        ctypes.CDLL("libc.so.6").malloc_trim(0)
    except Exception:
        pass
    _RSS_MARK = _rss_mb()


def init_worker(liesel_src: str, verif_root: str) -> None:
    """Process initialiser: pin the environment and import the system under test."""
    global _READY
    if _READY:
        return
    os.environ.setdefault("JAX_PLATFORMS", "cpu")
    os.environ.setdefault(
        "XLA_FLAGS",
        "--xla_cpu_multi_thread_eigen=false intra_op_parallelism_threads=1",
    )
    os.environ.setdefault("OMP_NUM_THREADS", "1")
    os.environ.setdefault("TF_CPP_MIN_LOG_LEVEL", "3")
    for p in (verif_root, liesel_src):
        if p in sys.path:
            sys.path.remove(p)
        sys.path.insert(0, p)
    import logging
    import warnings

    warnings.filterwarnings("ignore")
    import liesel  # noqa

    src = os.path.realpath(liesel_src)
    got = os.path.realpath(os.path.dirname(os.path.dirname(liesel.__file__)))
    if got != src:
        raise RuntimeError(f"liesel imported from {got}, expected {src}")
    logging.getLogger("liesel").setLevel(logging.ERROR)
    for h in list(logging.getLogger("liesel").handlers):
        logging.getLogger("liesel").removeHandler(h)
    logging.getLogger("liesel").addHandler(logging.NullHandler())
    logging.getLogger("liesel").propagate = False
    logging.getLogger("jax").setLevel(logging.ERROR)
    logging.getLogger("absl").setLevel(logging.ERROR)
    _READY = True


def _mod(prop: str):
    return importlib.import_module(f"simkit.props.{prop}")


def _exec(mod, plan: dict) -> dict:
    cap = getattr(mod, "RUN_CAP_S", 120)
    faulthandler.dump_traceback_later(cap, exit=True)
    t0 = time.monotonic()
    from simkit.core import SutError

    try:
        res = mod.execute(plan)
    except SutError as e:
        # an exception escaping from a call the plan is entitled to make: a violation of the
        # system under test, never a harness error
        parts = str(e).split("|", 3)
        if len(parts) == 4:
            v = {"oracle": "unexpected-exception", "locus": f"{parts[0]}/{parts[1]}/{parts[2]}",
                 "detail": f"a legitimate call raised: {parts[3]}"[:1500]}
        else:
            v = {"oracle": "unexpected-exception", "locus": "call", "detail": str(e)[:1500]}
        res = {"violations": [v], "digest": "exception:" + v["locus"], "tail": [], "sig": "exception",
               "nontrivial": True, "counters": {}, "simtime": 0, "subbatch": "exception"}
    finally:
        faulthandler.cancel_dump_traceback_later()
    res["wall"] = time.monotonic() - t0
    _bound_memory()
    return res


def run_task(prop: str, seed: int, tier: str, idx: int, want_sample: bool) -> dict:
    from simkit.core import plan_rng, to_plain

    mod = _mod(prop)
    try:
        rng = plan_rng(prop, seed, idx)
        plan = mod.gen_plan(rng, tier, idx)
        res = _exec(mod, plan)
    except Exception:
        return {"idx": idx, "harness_error": traceback.format_exc()}
    res["idx"] = idx
    if res["violations"]:
        res["plan"] = to_plain(plan)
    if want_sample:
        res["sample"] = to_plain(
            mod.abbreviate(plan) if hasattr(mod, "abbreviate") else plan
        )
    return res


def exec_plan_task(prop: str, plan: dict) -> dict:
    mod = _mod(prop)
    try:
        return _exec(mod, plan)
    except Exception:
        return {"harness_error": traceback.format_exc(), "violations": []}


def shrink_task(prop: str, plan: dict, sig: list, max_tests: int, max_s: float) -> dict:
    """Greedy plan minimisation: keep a candidate iff the same (oracle, locus) persists."""
    from simkit.core import to_plain

    mod = _mod(prop)
    sig_t = (sig[0], sig[1])
    tests = 0
    t0 = time.monotonic()

    def still_fails(cand: dict) -> bool:
        nonlocal tests
        tests += 1
        try:
            r = _exec(mod, cand)
        except Exception:
            return False
        return any((v["oracle"], v["locus"]) == sig_t for v in r["violations"])

    cur = plan
    if not hasattr(mod, "shrink_candidates"):
        return {"plan": to_plain(cur), "tests": 0}
    progress = True
    while progress and tests < max_tests and time.monotonic() - t0 < max_s:
        progress = False
        for cand in mod.shrink_candidates(cur):
            if tests >= max_tests or time.monotonic() - t0 >= max_s:
                break
            if still_fails(cand):
                cur = cand
                progress = True
                break
    return {"plan": to_plain(cur), "tests": tests}

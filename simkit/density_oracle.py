"""Independent (float64, closed-form) reference for the model totals and per-variable log-probs
of a world-M program: used by C02 and C14."""

from __future__ import annotations

import numpy as np

from simkit import refdensity as R


def np64(x):
    return np.asarray(x, np.float64)


def ref_terms(spec, refvals: dict) -> dict:
    """refvals: RefGraph.eval() output (values by node name).  Returns
    {"terms": [{name, kind, role, lp (array, per observation), per_obs}], "total", "lik", "prior"}"""

    def rv(r):
        if "c" in r:
            return np64(r["c"])
        it = spec[r["i"]]
        if it["k"] == "var":
            return np64(refvals[f"{it['name']}_value"])
        return np64(refvals[it["name"]])

    terms = []
    for it in spec:
        if it["k"] == "var" and it.get("dist"):
            D = it["dist"]
            p = {k: rv(r) for k, r in D["args"].items()}
            tr = it.get("transform")
            if tr:
                t = np64(refvals[f"{it['name']}_transformed_value"])
                if tr["bij"] is None:
                    fwd, ldj = R.default_bijector(D["fam"], p)
                    x, lj = fwd(t), ldj(t)
                else:
                    arg = rv(tr["arg"]) if tr.get("arg") else None
                    x, lj = R.bij_forward(tr["bij"], t, arg), R.bij_logdet(tr["bij"], t, arg)
                lp = R.logpdf(D["fam"], x, p) + lj
                terms.append({"name": f"{it['name']}_transformed", "kind": "transformed", "orig": it["name"],
                              "role": "param" if it.get("role") == "param" else None, "lp": np.asarray(lp), "per_obs": D.get("per_obs", True),
                              "x": x, "t": t})
            else:
                x = np64(refvals[f"{it['name']}_value"])
                lp = R.logpdf(D["fam"], x, p)
                terms.append({"name": it["name"], "kind": "var", "role": it.get("role"), "lp": np.asarray(lp), "per_obs": D.get("per_obs", True)})
        elif it["k"] == "calc" and it.get("wrap") and it.get("wdist"):
            D = it["wdist"]
            p = {k: rv(r) for k, r in D["args"].items()}
            lp = R.logpdf(D["fam"], np64(refvals[it["name"]]), p)
            terms.append({"name": it["wrap"], "kind": "weak-var", "role": D.get("role"), "lp": np.asarray(lp), "per_obs": D.get("per_obs", True)})
        elif it["k"] == "baredist":
            D = it["dist"]
            p = {k: rv(r) for k, r in D["args"].items()}
            lp = R.logpdf(D["fam"], rv(it["at"]), p)
            terms.append({"name": it["name"], "kind": "bare", "role": None, "lp": np.asarray(lp), "per_obs": D.get("per_obs", True)})
    total = float(sum(t["lp"].sum() for t in terms))
    lik = float(sum(t["lp"].sum() for t in terms if t["role"] == "obs"))
    prior = float(sum(t["lp"].sum() for t in terms if t["role"] == "param"))
    mag = float(sum(np.abs(t["lp"]).sum() for t in terms))
    return {"terms": terms, "total": total, "lik": lik, "prior": prior, "mag": mag,
            "decomposes": all(t["role"] in ("obs", "param") for t in terms)}


def close(a, b, mag, rtol=1e-4):
    a, b = np64(a), np64(b)
    if a.shape != b.shape:
        return False
    return bool(np.all(np.abs(a - b) <= rtol * (1.0 + mag)))

#!/bin/bash
# Offline setup: liesel is pure Python and is imported from /repo's working tree by the checks;
# the only extra the framework wants is jsonschema (evidence validation), from the wheelhouse.
set -e
cd "$(dirname "$0")"
/venv/bin/python -c "import jsonschema" 2>/dev/null || \
  /venv/bin/pip install --no-index --find-links /opt/veriftools/wheels jsonschema >/dev/null 2>&1 || \
  echo "jsonschema unavailable: evidence is written without schema validation"
/venv/bin/python -c "import jax, liesel; print('setup ok: jax', jax.__version__, 'liesel', liesel.__file__)"
